// C10 — layered state views (leveldb store <- OverlayDB "block layer" <- CacheDB "tx layer") agree with their
// backing store.
//
// Real objects: leveldbstore.NewMemLevelDBStore, overlaydb.OverlayDB (+JoinIter), native/storage.CacheDB (+Iter).
// Reference: three Go maps (store: live keys; blk, tx: written keys, "" = deleted).
//
// mc.BFS over write histories (tx Put/Put-empty/Delete/Commit/Reset, blk Put/Put-empty/Delete/CommitTo+BatchCommit/
// Reset) from EVERY subset of the raw keys pre-loaded in the store, dedup on (store, blk, tx) model contents.
// A BFS node is compact (pre-load id, one byte per event, 16-byte hash of the model contents); model and real objects
// are re-derived from it. Bounds: thorough <= 8 workers / 8 GiB (memory watchdog -> Capped), frontier cap.
// After every transition the real objects are asked everything (read battery): Get at all three layers for every
// key, prefix scans at the tx layer (CacheDB.NewIterator) and at the block layer (OverlayDB.NewIterator) for every
// prefix of the alphabet, a full scan of the store. Successor = replay of the whole op path on a fresh OverlayDB /
// CacheDB over a pooled store whose visible content is re-read and repaired to exactly the pre-load before each use;
// in addition every state up to a stated depth is re-derived from scratch (fresh NewMemLevelDBStore, production
// NewOverlayDB/NewCacheDB) and the battery repeated (cross-check of pooling and small arenas).
//
// Oracle (the property): read = newest layer's value, deleted (Delete or empty value — the code base's delete
// convention, see memdb.go header) reads absent; a prefix scan yields exactly the visible live keys under the prefix,
// ascending byte order, newest values; Commit/CommitTo apply exactly the layer's changes to the layer below (the
// layer itself keeps answering the same); Reset discards the layer's changes. "absent" is compared as len==0 (the
// API cannot distinguish nil from empty). A backend read error must not be reported as "absent" (stub store).
package main

import (
	"crypto/sha256"
	"errors"
	"fmt"
	"os"
	"runtime"
	"runtime/debug"
	"runtime/pprof"
	"sort"
	"strings"
	"sync"
	"sync/atomic"
	"time"

	scom "github.com/polynetwork/poly/core/store/common"
	"github.com/polynetwork/poly/core/store/leveldbstore"
	"github.com/polynetwork/poly/core/store/overlaydb"
	"github.com/polynetwork/poly/native/storage"
	"verif.local/engine/ev"
	"verif.local/engine/mc"
)

const pfx = "\x05" // scom.ST_STORAGE

var (
	ckeys  []string // contract keys (tx layer); raw = pfx+key
	rawAll []string // raw keys known to the block layer / store: pfx+ckeys plus keys outside the storage prefix
	txPref []string
	blkPrf []string
)

type op struct {
	layer, kind, key, val string // key: contract key for tx, raw key for blk
}

func (o op) String() string {
	switch o.kind {
	case "put":
		return fmt.Sprintf("%s.Put(%q,%q)", o.layer, o.key, o.val)
	case "del":
		return fmt.Sprintf("%s.Delete(%q)", o.layer, o.key)
	}
	return o.layer + "." + o.kind + "()"
}

var opTab = map[string]op{}

// ---------------------------------------------------------------- reference model

type model struct{ store, blk, tx map[string]string }

func cp(m map[string]string) map[string]string {
	c := make(map[string]string, len(m))
	for k, v := range m {
		c[k] = v
	}
	return c
}
func (m *model) clone() *model { return &model{cp(m.store), cp(m.blk), cp(m.tx)} }

func (m *model) do(o op) {
	switch {
	case o.kind == "put" && o.layer == "tx":
		m.tx[pfx+o.key] = o.val
	case o.kind == "del" && o.layer == "tx":
		m.tx[pfx+o.key] = ""
	case o.kind == "put":
		m.blk[o.key] = o.val
	case o.kind == "del":
		m.blk[o.key] = ""
	case o.kind == "Commit": // tx -> blk
		for k, v := range m.tx {
			m.blk[k] = v
		}
	case o.kind == "CommitTo": // blk -> store
		for k, v := range m.blk {
			if v == "" {
				delete(m.store, k)
			} else {
				m.store[k] = v
			}
		}
	case o.kind == "Reset" && o.layer == "tx":
		m.tx = map[string]string{}
	case o.kind == "Reset":
		m.blk = map[string]string{}
	}
}

func (m *model) blkView(k string) string {
	if v, ok := m.blk[k]; ok {
		return v
	}
	return m.store[k]
}

func (m *model) txView(k string) string {
	if v, ok := m.tx[k]; ok {
		return v
	}
	return m.blkView(k)
}

func canon(m map[string]string) string {
	ks := make([]string, 0, len(m))
	for k := range m {
		ks = append(ks, k)
	}
	sort.Strings(ks)
	var b strings.Builder
	for _, k := range ks {
		fmt.Fprintf(&b, "%q=%q;", k, m[k])
	}
	return b.String()
}

func (m *model) key() string { return canon(m.store) + "|" + canon(m.blk) + "|" + canon(m.tx) }

// expected battery transcript
func (m *model) battery() string {
	var b strings.Builder
	for _, k := range ckeys {
		fmt.Fprintf(&b, "tx.get(%q)=%q ", k, m.txView(pfx+k))
	}
	for _, k := range rawAll {
		fmt.Fprintf(&b, "blk.get(%q)=%q store.get(%q)=%q ", k, m.blkView(k), k, m.store[k])
	}
	for _, p := range txPref {
		fmt.Fprintf(&b, "\ntx.scan(%q)=[", p)
		for _, k := range rawAll { // rawAll is sorted
			if strings.HasPrefix(k, pfx+p) && m.txView(k) != "" {
				fmt.Fprintf(&b, "%q=%q ", k[1:], m.txView(k))
			}
		}
		b.WriteString("]")
	}
	for _, p := range blkPrf {
		fmt.Fprintf(&b, "\nblk.scan(%q)=[", p)
		for _, k := range rawAll {
			if strings.HasPrefix(k, p) && m.blkView(k) != "" {
				fmt.Fprintf(&b, "%q=%q ", k, m.blkView(k))
			}
		}
		b.WriteString("]")
	}
	b.WriteString("\nstore.scan=[")
	for _, k := range rawAll {
		if v := m.store[k]; v != "" {
			fmt.Fprintf(&b, "%q=%q ", k, v)
		}
	}
	b.WriteString("]")
	return b.String()
}

// ---------------------------------------------------------------- real objects

type world struct {
	store *leveldbstore.LevelDBStore
	blk   *overlaydb.OverlayDB
	tx    *storage.CacheDB
}

func scan(b *strings.Builder, it scom.StoreIterator) {
	n := 0
	for ok := it.First(); ok && n < 64; ok = it.Next() {
		fmt.Fprintf(b, "%q=%q ", it.Key(), it.Value())
		n++
	}
	if err := it.Error(); err != nil {
		fmt.Fprintf(b, "ERR:%v", err)
	}
	it.Release()
	b.WriteString("]")
}

func (w *world) battery() string {
	var b strings.Builder
	for _, k := range ckeys {
		v, err := w.tx.Get([]byte(k))
		if err != nil {
			fmt.Fprintf(&b, "tx.get(%q)=ERR:%v ", k, err)
		} else {
			fmt.Fprintf(&b, "tx.get(%q)=%q ", k, v)
		}
	}
	for _, k := range rawAll {
		v, err := w.blk.Get([]byte(k))
		if err != nil {
			fmt.Fprintf(&b, "blk.get(%q)=ERR:%v ", k, err)
		} else {
			fmt.Fprintf(&b, "blk.get(%q)=%q ", k, v)
		}
		v, err = w.store.Get([]byte(k))
		if err != nil && err != scom.ErrNotFound {
			fmt.Fprintf(&b, "store.get(%q)=ERR:%v ", k, err)
		} else {
			fmt.Fprintf(&b, "store.get(%q)=%q ", k, v)
		}
	}
	for _, p := range txPref {
		fmt.Fprintf(&b, "\ntx.scan(%q)=[", p)
		scan(&b, w.tx.NewIterator([]byte(p)))
	}
	for _, p := range blkPrf {
		fmt.Fprintf(&b, "\nblk.scan(%q)=[", p)
		var key []byte // nil prefix = scan everything
		if p != "" {
			key = []byte(p)
		}
		scan(&b, w.blk.NewIterator(key))
	}
	b.WriteString("\nstore.scan=[")
	scan(&b, w.store.NewIterator(nil))
	if err := w.blk.Error(); err != nil {
		fmt.Fprintf(&b, " blk.Error=%v", err)
	}
	return b.String()
}

func (w *world) do(o op) {
	switch {
	case o.kind == "put" && o.layer == "tx":
		w.tx.Put([]byte(o.key), []byte(o.val))
	case o.kind == "del" && o.layer == "tx":
		w.tx.Delete([]byte(o.key))
	case o.kind == "put":
		w.blk.Put([]byte(o.key), []byte(o.val))
	case o.kind == "del":
		w.blk.Delete([]byte(o.key))
	case o.kind == "Commit":
		w.tx.Commit()
	case o.kind == "CommitTo":
		w.store.NewBatch()
		w.blk.CommitTo()
		if err := w.store.BatchCommit(); err != nil {
			panic(err)
		}
	case o.kind == "Reset" && o.layer == "tx":
		w.tx.Reset()
	case o.kind == "Reset":
		w.blk.Reset()
	}
}

func load(s *leveldbstore.LevelDBStore, init map[string]string) {
	for k, v := range init {
		if err := s.Put([]byte(k), []byte(v)); err != nil {
			panic(err)
		}
	}
}

// Pool of stores keyed by pre-load (canon(init)). Opening a mem leveldb costs ~1.6 ms (4 MiB write buffer) and a
// wiped+reloaded leveldb accumulates dead versions that every later scan must skip, so a store is only ever reused
// for the SAME pre-load and is repaired with the minimal diff after a replay that committed into it (its visible
// content is re-read and compared with the pre-load before every use). After maxRepairs it is closed and replaced.
// (sync.Pool is unsuitable: drained by every GC cycle.)
type pooled struct {
	s       *leveldbstore.LevelDBStore
	repairs int
}

const maxRepairs = 200

var (
	poolMu sync.Mutex
	pools  = map[string][]*pooled{}
)

func getStore(init map[string]string) *pooled {
	k := canon(init)
	poolMu.Lock()
	l := pools[k]
	var h *pooled
	if n := len(l); n > 0 {
		h, pools[k] = l[n-1], l[:n-1]
	}
	poolMu.Unlock()
	if h != nil && h.repairs > maxRepairs {
		_ = h.s.Close()
		h = nil
	}
	if h == nil {
		s, err := leveldbstore.NewMemLevelDBStore()
		if err != nil {
			panic(err)
		}
		h = &pooled{s: s}
	}
	// bring the visible content to exactly init
	cur := map[string]string{}
	it := h.s.NewIterator(nil)
	for ok := it.First(); ok; ok = it.Next() {
		cur[string(it.Key())] = string(it.Value())
	}
	it.Release()
	dirty := false
	for k, v := range cur {
		if w, ok := init[k]; !ok {
			dirty = true
			if err := h.s.Delete([]byte(k)); err != nil {
				panic(err)
			}
		} else if w != v {
			dirty = true
			if err := h.s.Put([]byte(k), []byte(w)); err != nil {
				panic(err)
			}
		}
	}
	for k, v := range init {
		if _, ok := cur[k]; !ok {
			dirty = true
			if err := h.s.Put([]byte(k), []byte(v)); err != nil {
				panic(err)
			}
		}
	}
	if dirty {
		h.repairs++
	}
	return h
}

func putStore(init map[string]string, h *pooled) {
	k := canon(init)
	poolMu.Lock()
	pools[k] = append(pools[k], h)
	poolMu.Unlock()
}

// pooled world: store with exactly the pre-load, fresh small-arena OverlayDB, fresh CacheDB
func pooledWorld(init map[string]string) (*world, *pooled) {
	h := getStore(init)
	blk := overlaydb.VerifNewOverlayDBCap(h.s, 64, 2)
	return &world{h.s, blk, storage.VerifNewCacheDBCap(blk, 64, 2)}, h
}

// scratch world: everything brand new, production constructors
func scratchWorld(init map[string]string) *world {
	s, err := leveldbstore.NewMemLevelDBStore()
	if err != nil {
		panic(err)
	}
	load(s, init)
	blk := overlaydb.NewOverlayDB(s)
	return &world{s, blk, storage.NewCacheDB(blk)}
}

// ---------------------------------------------------------------- driver

var r *ev.Run

// outcome-class / evaluation counters are kept lock-free (16 workers, ~10 increments per transition) and handed
// to ev at the end: class presence through r.Class, magnitudes through the "class_counts" note.
var (
	classCnt sync.Map // name -> *atomic.Int64
	evalCnt  atomic.Int64
)

func class(name string) {
	v, ok := classCnt.Load(name)
	if !ok {
		v, _ = classCnt.LoadOrStore(name, new(atomic.Int64))
	}
	v.(*atomic.Int64).Add(1)
}

func flushCounters() {
	counts := map[string]int64{}
	classCnt.Range(func(k, v any) bool {
		counts[k.(string)] = v.(*atomic.Int64).Load()
		r.Class(k.(string))
		return true
	})
	r.Note("class_counts", counts)
	r.Evals(int(evalCnt.Load()))
}

func desc(init map[string]string, path []string) map[string]any {
	return map[string]any{"store_preload": canon(init), "ops": path}
}

// joinClasses records which JoinIter situations the scans of this state contain (vacuity guard).
func joinClasses(m *model) {
	for _, k := range rawAll {
		bv, inBlk := m.blk[k]
		_, inStore := m.store[k]
		switch {
		case inBlk && inStore && bv == "":
			class("blk_join:tombstone_over_store_key")
		case inBlk && inStore:
			class("blk_join:both")
		case inBlk && bv == "":
			class("blk_join:tombstone_only")
		case inBlk:
			class("blk_join:mem_only")
		case inStore:
			class("blk_join:store_only")
		}
		tv, inTx := m.tx[k]
		below := m.blkView(k) != ""
		switch {
		case inTx && below && tv == "":
			class("tx_join:tombstone_over_lower_key")
		case inTx && below:
			class("tx_join:both")
		case inTx && tv == "":
			class("tx_join:tombstone_only")
		case inTx:
			class("tx_join:mem_only")
		case below:
			class("tx_join:lower_only")
		}
		if inTx && inBlk && inStore {
			class("key_in_all_three_layers")
		}
	}
}

// ---------------------------------------------------------------- iterator lifecycle
//
// An iterator that is opened, left unpositioned while other operations run (reads, writes, tx.Commit, a second
// iterator opened over another prefix), and only then consumed (First/Next.../Release without interleaved ops).
// What the unchanged code guarantees, and therefore the oracle: the MemDB parts of the join iterator are live (they
// read the skip list when positioned) and the leveldb part is a snapshot taken at open — so as long as the STORE does
// not change between open and First (no CommitTo) and no layer is Reset, the scan equals the model's scan AT THE TIME
// THE ITERATOR IS POSITIONED. Store commits / Resets while an iterator is open are excluded (mixture unspecified), and
// nothing is demanded about writes made after First.

type itSpec struct{ layer, p string }

func (m *model) scanOne(sp itSpec) string {
	var b strings.Builder
	for _, k := range rawAll {
		if sp.layer == "tx" {
			if strings.HasPrefix(k, pfx+sp.p) && m.txView(k) != "" {
				fmt.Fprintf(&b, "%q=%q ", k[1:], m.txView(k))
			}
		} else if strings.HasPrefix(k, sp.p) && m.blkView(k) != "" {
			fmt.Fprintf(&b, "%q=%q ", k, m.blkView(k))
		}
	}
	b.WriteString("]")
	return b.String()
}

func (w *world) open(sp itSpec) scom.StoreIterator {
	if sp.layer == "tx" {
		return w.tx.NewIterator([]byte(sp.p))
	}
	var key []byte // nil prefix = everything; the buffer is private to this iterator (OverlayDB: "param key is referenced by iterator")
	if sp.p != "" {
		key = []byte(sp.p)
	}
	return w.blk.NewIterator(key)
}

func consume(it scom.StoreIterator) string {
	var b strings.Builder
	scan(&b, it)
	return b.String()
}

type between struct {
	kind string // tx.get blk.get write open
	key  string
	o    op
	sp   itSpec
	bFirst bool // second iterator consumed before the first one
}

func (bt between) String() string {
	switch bt.kind {
	case "tx.get", "blk.get":
		return fmt.Sprintf("%s(%q)", bt.kind, bt.key)
	case "write":
		return bt.o.String()
	}
	return fmt.Sprintf("open %s.NewIterator(%q) consumedFirst=%v", bt.sp.layer, bt.sp.p, bt.bFirst)
}

func (bt between) class() string {
	switch bt.kind {
	case "write":
		return bt.o.layer + "." + bt.o.kind
	case "open":
		return "open-" + bt.sp.layer
	}
	return bt.kind
}

var lifeCases atomic.Int64

func lifecycle(init map[string]string, m *model, path []string, specs []itSpec, menu []between) {
	for _, a := range specs {
		atOpen := m.scanOne(a)
		for _, bt := range menu {
			mm := m
			if bt.kind == "write" {
				mm = m.clone()
				mm.do(bt.o)
			}
			wantA := mm.scanOne(a)
			var gotA, gotB, wantB string
			var h *pooled
			rec, p := ev.Guard(func() {
				var w *world
				w, h = pooledWorld(init)
				for _, pe := range path {
					w.do(opTab[pe])
				}
				itA := w.open(a)
				switch bt.kind {
				case "tx.get":
					_, _ = w.tx.Get([]byte(bt.key))
				case "blk.get":
					_, _ = w.blk.Get([]byte(bt.key))
				case "write":
					w.do(bt.o)
				case "open":
					itB := w.open(bt.sp)
					wantB = mm.scanOne(bt.sp)
					if bt.bFirst {
						gotB = consume(itB)
						gotA = consume(itA)
					} else {
						gotA = consume(itA)
						gotB = consume(itB)
					}
					return
				}
				gotA = consume(itA)
			})
			lifeCases.Add(1)
			evalCnt.Add(1)
			detail := func(got, want string) map[string]any {
				return map[string]any{"case": desc(init, path), "iterator": fmt.Sprintf("%s.NewIterator(%q)", a.layer, a.p),
					"between_open_and_First": bt.String(), "got": got, "want": want}
			}
			if p {
				r.Violation("iter-lifecycle:panic:"+a.layer+":after-"+bt.class(), map[string]any{"detail": detail("", ""), "panic": fmt.Sprint(rec)})
				continue
			}
			putStore(init, h)
			if gotA != wantA {
				r.Violation("iter-lifecycle:"+a.layer+"-scan:after-"+bt.class()+":mismatch", detail(gotA, wantA))
			}
			if bt.kind == "open" {
				class("lifecycle:two_iterators_open")
				if gotB != wantB {
					r.Violation("iter-lifecycle:second-iterator:"+bt.sp.layer+"-scan:mismatch", detail(gotB, wantB))
				}
			}
			if wantA != "]" {
				class("lifecycle:scan_nonempty")
			}
			if wantA != atOpen {
				class("lifecycle:write_between_open_and_First_changes_scan")
			}
		}
	}
}

// cstate is what the BFS keeps per frontier node: pre-load id, one byte per event, hash of the model contents.
// Model and real objects are re-derived from it on demand (lead's memory bound: no live objects per node).
type cstate struct {
	mask uint16
	evs  string
	h    [16]byte
}

type exploreStats struct {
	tag                            string
	st                             mc.Stats
	transitions                    int64
	scratchChecked, scratchSkipped int64
	scratchMaxDepth, depth         int
	events, inits                  int
	ckeys, raw                     string
}

var memStop atomic.Bool

func memWatch(limit uint64) {
	debug.SetMemoryLimit(int64(limit * 3 / 4))
	go func() {
		var ms runtime.MemStats
		for {
			time.Sleep(3 * time.Second)
			runtime.ReadMemStats(&ms)
			if ms.Sys-ms.HeapReleased > limit {
				memStop.Store(true)
			}
		}
	}()
}

func setAlphabet(ck []string) {
	ckeys, rawAll = ck, nil
	for _, k := range ckeys {
		rawAll = append(rawAll, pfx+k)
	}
	rawAll = append(rawAll, "\x06") // == exclusive limit of the "\x05" prefix range; block layer / store only
	sort.Strings(rawAll)
	txPref = []string{"", "a", "ab", "b", "c"}
	blkPrf = []string{"", pfx, pfx + "a", pfx + "ab", pfx + "b", "\x06", "\x07"}
}

func explore(tag string, ck []string, depth, scratchMaxDepth, lifeDepth int, fullMenu bool, workers, maxFrontier int) exploreStats {
	setAlphabet(ck)
	var events []string
	var evOps []op
	evIdx := map[string]int{}
	add := func(o op) {
		evIdx[o.String()], opTab[o.String()] = len(events), o
		events, evOps = append(events, o.String()), append(evOps, o)
	}
	for _, k := range ckeys {
		add(op{"tx", "put", k, "x"})
		add(op{"tx", "put", k, "yy"})
		add(op{"tx", "put", k, ""})
		add(op{"tx", "del", k, ""})
	}
	add(op{"tx", "Commit", "", ""})
	add(op{"tx", "Reset", "", ""})
	for _, k := range rawAll {
		add(op{"blk", "put", k, "x"})
		add(op{"blk", "put", k, "yy"})
		if fullMenu { // same MemDB path as Delete (nil vs empty slice is C09's business); always kept at the tx layer
			add(op{"blk", "put", k, ""})
		}
		add(op{"blk", "del", k, ""})
	}
	add(op{"blk", "CommitTo", "", ""})
	add(op{"blk", "Reset", "", ""})

	// iterator-lifecycle menu (see lifecycle())
	var specs []itSpec
	for _, p := range txPref {
		specs = append(specs, itSpec{"tx", p})
	}
	for _, p := range blkPrf {
		specs = append(specs, itSpec{"blk", p})
	}
	var btMenu []between
	for _, k := range ckeys {
		btMenu = append(btMenu, between{kind: "tx.get", key: k},
			between{kind: "write", o: op{"tx", "put", k, "x"}}, between{kind: "write", o: op{"tx", "del", k, ""}})
	}
	for _, k := range rawAll {
		btMenu = append(btMenu, between{kind: "blk.get", key: k},
			between{kind: "write", o: op{"blk", "put", k, "yy"}}, between{kind: "write", o: op{"blk", "del", k, ""}})
	}
	btMenu = append(btMenu, between{kind: "write", o: op{"tx", "Commit", "", ""}})
	second := specs
	if !fullMenu { // quick: 6 of the 12 choices for the second iterator
		second = []itSpec{{"tx", ""}, {"tx", "a"}, {"tx", "b"}, {"blk", pfx}, {"blk", pfx + "a"}, {"blk", "\x06"}}
	}
	for _, sp := range second {
		btMenu = append(btMenu, between{kind: "open", sp: sp}, between{kind: "open", sp: sp, bFirst: true})
	}

	preload := func(mask uint16) map[string]string {
		init := map[string]string{}
		for i, k := range rawAll {
			if mask>>i&1 == 1 {
				init[k] = "s" + fmt.Sprint(i)
			}
		}
		return init
	}
	rebuild := func(s cstate) (map[string]string, *model, []string) {
		init := preload(s.mask)
		m := &model{cp(init), map[string]string{}, map[string]string{}}
		path := make([]string, len(s.evs))
		for i := 0; i < len(s.evs); i++ {
			m.do(evOps[s.evs[i]])
			path[i] = events[s.evs[i]]
		}
		return init, m, path
	}
	hash := func(m *model) (h [16]byte) {
		x := sha256.Sum256([]byte(m.key()))
		copy(h[:], x[:])
		return
	}
	// every subset of the raw keys pre-loaded in the store
	var inits []cstate
	for mask := 0; mask < 1<<len(rawAll); mask++ {
		s := cstate{mask: uint16(mask)}
		_, m, _ := rebuild(s)
		s.h = hash(m)
		inits = append(inits, s)
	}

	es := exploreStats{tag: tag, depth: depth, scratchMaxDepth: scratchMaxDepth, events: len(events), inits: len(inits),
		ckeys: fmt.Sprintf("%q", ckeys), raw: fmt.Sprintf("%q", rawAll)}
	var transitions, scratchChecked, scratchSkipped atomic.Int64
	known := map[[16]byte]struct{}{} // states of previous levels; written only between levels (Inv), read by workers
	perLevel := map[int]int{}
	frontierCapped := false
	es.st = mc.BFS(mc.Config[cstate]{
		Init: inits,
		Events: func(s cstate, d int) []string {
			init, m, path := rebuild(s)
			// cross-check of pooling / small arenas: re-derive this state from scratch with production constructors
			if d <= scratchMaxDepth {
				var got string
				if rec, p := ev.Guard(func() {
					w := scratchWorld(init)
					for _, e := range path {
						w.do(opTab[e])
					}
					got = w.battery()
					_ = w.store.Close()
				}); p {
					r.Violation("panic:from-scratch", map[string]any{"case": desc(init, path), "panic": fmt.Sprint(rec)})
				} else if want := m.battery(); got != want {
					r.Violation("views:from-scratch-replay:mismatch", map[string]any{"case": desc(init, path), "got": got, "want": want})
				}
				scratchChecked.Add(1)
				evalCnt.Add(1)
			} else {
				scratchSkipped.Add(1)
			}
			joinClasses(m)
			if d <= lifeDepth {
				lifecycle(init, m, path, specs, btMenu)
			}
			if d >= depth || perLevel[d] > maxFrontier {
				return nil
			}
			return events
		},
		Step: func(s cstate, e string) (cstate, bool) {
			ei := evIdx[e]
			o := evOps[ei]
			init, pm, ppath := rebuild(s)
			nm := pm.clone()
			nm.do(o)
			path := append(ppath, e)
			next := cstate{mask: s.mask, evs: s.evs + string([]byte{byte(ei)}), h: hash(nm)}
			transitions.Add(1)
			var got string
			var h *pooled
			if rec, p := ev.Guard(func() {
				var w *world
				w, h = pooledWorld(init)
				for _, pe := range ppath {
					w.do(opTab[pe])
				}
				w.do(o)
				got = w.battery()
			}); p {
				r.Violation("panic:"+o.layer+"."+o.kind, map[string]any{"case": desc(init, path), "panic": fmt.Sprint(rec)})
				return next, true // the pooled store is dropped
			}
			putStore(init, h)
			evalCnt.Add(1)
			if want := nm.battery(); got != want {
				// name the first differing battery line: stable key per (op kind, observation kind)
				gl, wl := strings.Split(got, "\n"), strings.Split(want, "\n")
				what := "length"
				for i := range wl {
					if i >= len(gl) || gl[i] != wl[i] {
						what = strings.SplitN(wl[i], "(", 2)[0]
						if i == 0 {
							what = "get"
						}
						break
					}
				}
				r.Violation("views:after-"+o.layer+"."+o.kind+":"+what+":mismatch", map[string]any{"case": desc(init, path), "got": got, "want": want})
			}
			switch {
			case o.kind == "Commit" && len(pm.tx) > 0:
				class("commit_tx_nonempty")
			case o.kind == "CommitTo" && len(pm.blk) > 0:
				class("commit_blk_nonempty")
			case o.kind == "Reset" && o.layer == "tx" && len(pm.tx) > 0:
				class("reset_tx_nonempty")
			case o.kind == "Reset" && o.layer == "blk" && len(pm.blk) > 0:
				class("reset_blk_nonempty")
			}
			// The transition has been executed and checked. A successor already known from an earlier level is not
			// handed to mc (ok=false) so that mc does not retain it until the level is merged; transitions are counted here.
			_, old := known[next.h]
			return next, !old
		},
		Key:      func(s cstate) string { return string(s.h[:]) },
		MaxDepth: depth + 1,
		Workers:  workers,
		Stop:     func() bool { return r.Expired() || memStop.Load() },
		Inv: func(s cstate, path []string) {
			known[s.h] = struct{}{}
			perLevel[len(path)]++
			if perLevel[len(path)] == maxFrontier+1 {
				frontierCapped = true
			}
			if len(path) == 2 {
				init, m, _ := rebuild(s)
				r.Sample(map[string]any{"exploration": tag, "store_preload": canon(init), "ops": path, "state": m.key()})
			}
		},
	})
	if es.st.Truncated {
		if memStop.Load() {
			r.Capped(fmt.Sprintf("%s: BFS stopped by the memory bound at depth %d", tag, es.st.MaxDepth))
		} else {
			r.Capped(fmt.Sprintf("%s: BFS cut by deadline at depth %d", tag, es.st.MaxDepth))
		}
	}
	if frontierCapped {
		r.Capped(fmt.Sprintf("%s: a level exceeded %d states and was not expanded", tag, maxFrontier))
	}
	es.transitions, es.scratchChecked, es.scratchSkipped = transitions.Load(), scratchChecked.Load(), scratchSkipped.Load()
	// release the pooled stores (4 MiB write buffer each) before the next exploration
	poolMu.Lock()
	for k, l := range pools {
		for _, h := range l {
			_ = h.s.Close()
		}
		delete(pools, k)
	}
	poolMu.Unlock()
	return es
}

func main() {
	r = ev.Start("C10", "model_checking")
	if f := os.Getenv("VERIF_CPUPROF"); f != "" {
		fh, _ := os.Create(f)
		_ = pprof.StartCPUProfile(fh)
		defer pprof.StopCPUProfile()
	}
	r.Require("blk_join:tombstone_over_store_key", "blk_join:both", "blk_join:tombstone_only", "blk_join:mem_only", "blk_join:store_only",
		"tx_join:tombstone_over_lower_key", "tx_join:both", "tx_join:tombstone_only", "tx_join:mem_only", "tx_join:lower_only",
		"ff_prefix_worlds", "lifecycle:two_iterators_open", "lifecycle:scan_nonempty", "lifecycle:write_between_open_and_First_changes_scan",
		"key_in_all_three_layers", "commit_tx_nonempty", "commit_blk_nonempty", "reset_tx_nonempty", "reset_blk_nonempty",
		"backend_error_surfaced")
	// resource bounds: thorough <= 8 workers / 8 GiB, quick all cores / 4 GiB
	workers := runtime.NumCPU()
	if r.Thorough() && workers > 8 {
		workers = 8
	}
	memWatch(uint64(r.QT(4, 8)) << 30)
	const maxFrontier = 400000

	// brand-new leveldb + production 4 MiB overlay arena cost 2.5 ms (idle machine) to 15 ms (loaded) per state:
	// done for every state up to scratchMaxDepth
	lifeDepth := 2 // iterator-lifecycle cases are run from every state up to this depth
	if v := os.Getenv("VERIF_C10_LIFEDEPTH"); v != "" {
		fmt.Sscan(v, &lifeDepth)
	}
	var runs []exploreStats
	base := []string{"a", "ab", "b"}
	runs = append(runs, explore("base", base, r.QT(4, 6), r.QT(1, 3), lifeDepth, r.Thorough(), workers, maxFrontier))
	if r.Thorough() {
		// contract key "" -> raw key == the bare prefix byte 0x05 (lower edge of every storage scan)
		runs = append(runs, explore("with-empty-contract-key", []string{"", "a", "ab", "b"}, 3, 2, 1, true, workers, maxFrontier))
	}
	var st mc.Stats
	var transTotal, scratchTotal int64
	var runNotes []map[string]any
	for _, e := range runs {
		st.States += e.st.States
		if e.st.MaxDepth > st.MaxDepth {
			st.MaxDepth = e.st.MaxDepth
		}
		transTotal += e.transitions
		scratchTotal += e.scratchChecked
		runNotes = append(runNotes, map[string]any{"exploration": e.tag, "contract_keys": e.ckeys, "raw_keys": e.raw, "store_preloads": e.inits,
			"events_per_state": e.events, "depth_bound": e.depth, "states": e.st.States, "transitions": e.transitions, "per_depth": e.st.PerDepth,
			"from_scratch_states_checked": e.scratchChecked, "from_scratch_up_to_depth": e.scratchMaxDepth, "states_beyond_from_scratch_depth": e.scratchSkipped})
	}

	// ---------------- phase F: prefixes ending in 0xff (see ffprefix.go)
	r.Note("phaseF_ff_prefixes", ffPrefixPhase())

	// ---------------- environment deviation (bound 1): the backing store fails reads
	errCases := 0
	for _, mode := range []string{"get", "iter"} {
		base, _ := leveldbstore.NewMemLevelDBStore()
		load(base, map[string]string{pfx + "a": "s", pfx + "b": "s"})
		fs := &failStore{LevelDBStore: base}
		blk := overlaydb.NewOverlayDB(fs)
		tx := storage.NewCacheDB(blk)
		blk.Put([]byte(pfx+"ab"), []byte("x"))
		tx.Put([]byte("b"), []byte("yy"))
		fs.failGet, fs.failIter = mode == "get", mode == "iter"
		if mode == "get" {
			// keys answered by an upper layer must not touch the store; a key that needs the store must surface the error
			if v, err := tx.Get([]byte("b")); err != nil || string(v) != "yy" {
				r.Violation("error-stub:tx-known-key", map[string]any{"got": string(v), "err": fmt.Sprint(err)})
			}
			if v, err := blk.Get([]byte(pfx + "ab")); err != nil || string(v) != "x" {
				r.Violation("error-stub:blk-known-key", map[string]any{"got": string(v), "err": fmt.Sprint(err)})
			}
			if _, err := blk.Get([]byte(pfx + "a")); err == nil {
				r.Violation("error-stub:blk.Get-reports-absent-on-backend-error", nil)
			} else {
				class("backend_error_surfaced")
			}
			if _, err := tx.Get([]byte("a")); err == nil {
				r.Violation("error-stub:tx.Get-reports-absent-on-backend-error", nil)
			}
		} else {
			for name, it := range map[string]scom.StoreIterator{"blk": blk.NewIterator([]byte(pfx)), "tx": tx.NewIterator(nil)} {
				n := 0
				for ok := it.First(); ok && n < 10; ok = it.Next() {
					n++
				}
				if it.Error() == nil {
					r.Violation("error-stub:"+name+".scan-hides-backend-error", map[string]any{"items": n})
				} else {
					class("backend_error_surfaced")
				}
				it.Release()
			}
		}
		errCases++
		evalCnt.Add(1)
	}

	r.Assume("goleveldb (in-memory storage) is a correct ordered store; the pooled store is wiped and reloaded between replays, and every new state up to the stated depth is additionally re-derived on brand-new production objects",
		"writing an empty value is the code base's delete convention (MemDB header comment): it must read absent and be applied as a delete on commit")
	r.Note("explorations", runNotes)
	r.Note("iterator_lifecycle", map[string]any{"cases": lifeCases.Load(), "from_every_state_up_to_depth": lifeDepth,
		"shape": "open iterator (12 layer/prefix choices) -> one of {tx.Get, blk.Get, tx Put/Delete, blk Put/Delete, tx.Commit, open second iterator (12 choices, either consumed first)} -> First..Next..Release",
		"oracle": "scan == model scan at the time of First; no CommitTo/Reset while an iterator is open"})
	r.Note("resource_bounds", map[string]any{"workers": workers, "mem_limit_gib": r.QT(4, 8), "max_frontier_states": maxFrontier})
	pprof.StopCPUProfile()
	flushCounters()
	r.Finish(map[string]any{
		"rule":              "Get at tx/blk/store for every key + every prefix scan at tx and blk layer + full store scan == three-map reference, after every write/commit/reset",
		"tx_scan_prefixes":  fmt.Sprintf("%q", txPref), "blk_scan_prefixes": fmt.Sprintf("%q", blkPrf),
		"states":            st.States, "transitions": transTotal, "max_depth": st.MaxDepth,
		"distinct_nontrivial":           st.States,
		"traces_validated_against_impl": transTotal + scratchTotal + lifeCases.Load(),
		"error_stub_cases":              errCases,
	})
}

// failStore: a PersistStore whose reads fail on demand (environment deviation).
type failStore struct {
	*leveldbstore.LevelDBStore
	failGet, failIter bool
}

var errIO = errors.New("injected backend read error")

func (f *failStore) Get(key []byte) ([]byte, error) {
	if f.failGet {
		return nil, errIO
	}
	return f.LevelDBStore.Get(key)
}

func (f *failStore) NewIterator(prefix []byte) scom.StoreIterator {
	it := f.LevelDBStore.NewIterator(prefix)
	if f.failIter {
		return &failIter{it}
	}
	return it
}

type failIter struct{ scom.StoreIterator }

func (f *failIter) First() bool  { return false }
func (f *failIter) Next() bool   { return false }
func (f *failIter) Error() error { return errIO }
