// C21 — imports are gated by the chain registry, the blacklist and the router start height.
//
// Main-net configuration (the router start-height gate of utils.CheckRouterStartBlock only exists there), 4
// validators, four chains: A, B (vote router), C (HSC router: one of the three gated routers, with a
// synthetic MPT state so that complete valid imports from C exist) and R (RIPPLE router, used as a destination
// only: not account-based, the entrance hands over to ripple.MakeTransaction which builds the payment and bumps
// the sequence; its registration includes the asset binding and a voted base fee). Breadth-first exploration (depth quick 4 /
// thorough 6, from two initial states: nothing registered / everything registered) over the events
//
//	reg X            the quorum-completing approveRegisterSideChain (real governance path; for C followed by
//	                 header_sync.SyncGenesisHeader of the synthetic genesis header)
//	black X, white X BlackChain / WhiteChain by the consensus operator (multi-sig of the validators)
//	black!X, white!X the same by a single validator / by a 2-of-4 multi-sig of the validators (not the operator)
//	imp X>Y@h        a complete, fresh, valid import from X to Y executed at poly height h ∈ {late = start
//	                 height of the gated routers, early = start height − 1}; vote-router sources: two votes
//	                 and the quorum-completing third vote; C: one proof transaction
//
// Oracle (reference model: registry set, blacklist set, counters):
//
//	a tx releases a message            ⇒ X,Y registered ∧ neither blacklisted ∧ router(X) active at h
//	all of that holds                  ⇒ the import is accepted (whitelisting restores, registration enables)
//	a vote is recorded without release ⇒ X registered ∧ X not blacklisted ∧ router(X) active
//	otherwise the completing tx fails and the dump is unchanged (no vote, no doneTx, no request);
//	every failed tx leaves the dump unchanged; black/white by the operator change exactly the blacklist key,
//	by anybody else fail without trace.
package main

import (
	"bytes"
	"fmt"
	"math"
	"math/big"
	"sort"
	"strings"
	"time"

	"github.com/polynetwork/poly/common"
	"github.com/polynetwork/poly/common/config"
	"github.com/polynetwork/poly/core/types"
	_ "github.com/polynetwork/poly/native/service"
	"github.com/polynetwork/poly/native/service/governance/side_chain_manager"
	"github.com/polynetwork/poly/native/service/utils"
	"verif.local/engine/ev"
	"verif.local/engine/lib/ccm"
	"verif.local/engine/mc"
	"verif.local/engine/polyenv"
)

const (
	start = 18823000 // utils.CheckRouterStartBlock: HARMONY/HSC/BYTOM routers on main net
	late  = start
	early = start - 1
	A     = uint64(0)              // chain id 0 is registrable: source, destination and blacklist subject
	B     = uint64(math.MaxUint64) // 9-byte var-uint chain id
	C     = uint64(1)
	R     = uint64(24) // RIPPLE-router chain: a non-account-based DESTINATION (ripple.MakeTransaction builds the payment)
	nVal  = 4
	maxK  = 7
)

var chains = []uint64{A, B, C, R}
var cname = map[uint64]string{A: "A", B: "B", C: "C", R: "R"}
var cid = map[string]uint64{"A": A, "B": B, "C": C, "R": R}

// ripple destination: the multi-sign vault (= asset address = lock proxy of R on R) and a payee
var rVault = bytes.Repeat([]byte{0x5a}, 20)
var rPayee = bytes.Repeat([]byte{0x9e}, 20)

func rippleExtra() []byte {
	x := &side_chain_manager.RippleExtraInfo{Operator: ccm.RippleOperator.Addr, Sequence: 1, Quorum: 1, SignerNum: 1, Pks: [][]byte{{2}}, ReserveAmount: big.NewInt(1)}
	s := common.NewZeroCopySink(nil)
	x.Serialization(s)
	return s.Bytes()
}

func router(c uint64) uint64 {
	if c == C {
		return utils.HSC_ROUTER
	}
	if c == R {
		return utils.RIPPLE_ROUTER
	}
	return utils.VOTE_ROUTER
}

// reference: router start heights, restated from the property ("router not yet active at the current height")
func active(c uint64, h uint32) bool {
	if router(c) == utils.HSC_ROUTER {
		return h >= start
	}
	return true
}

type state struct {
	D     polyenv.Dump
	Reg   map[uint64]bool
	Black map[uint64]bool
	K     map[string]int // accepted imports per pair "X>Y"
}

func set(m map[uint64]bool) string {
	var o []string
	for k, v := range m {
		if v {
			o = append(o, cname[k])
		}
	}
	sort.Strings(o)
	return strings.Join(o, "")
}

func (s state) key() string {
	var ks []string
	for k, v := range s.K {
		ks = append(ks, fmt.Sprintf("%s=%d", k, v))
	}
	sort.Strings(ks)
	return set(s.Reg) + "|" + set(s.Black) + "|" + strings.Join(ks, ",") + "|" + s.D.String()
}

func (s state) clone() state {
	n := state{D: s.D, Reg: map[uint64]bool{}, Black: map[uint64]bool{}, K: map[string]int{}}
	for k, v := range s.Reg {
		n.Reg[k] = v
	}
	for k, v := range s.Black {
		n.Black[k] = v
	}
	for k, v := range s.K {
		n.K[k] = v
	}
	return n
}

func msg(x, y uint64, k int) []byte {
	if y == R { // what ripple.MakeTransaction expects: to-contract = asset; args = asset ++ payee ++ amount
		a := common.NewZeroCopySink(nil)
		a.WriteVarBytes(rVault)
		a.WriteVarBytes(rPayee)
		a.WriteUint64(1_000_000)
		return ccm.MsgBytes(ccm.Msg([]byte{0xe0, byte(x), byte(y), byte(k)}, []byte{byte(x), byte(y), byte(k)}, []byte{0xf0}, y, rVault, "unlock", a.Bytes()))
	}
	return ccm.MsgBytes(ccm.Msg([]byte{0xe0, byte(x), byte(y), byte(k)}, []byte{byte(x), byte(y), byte(k)}, []byte{0xf0}, y, make([]byte, 20), "unlock", []byte{1, 2, 3}))
}

func main() {
	r := ev.Start("C21", "model_checking")
	depth := r.QT(4, 6)
	r.Require("import-accepted", "rejected:source-unregistered", "rejected:source-blacklisted", "rejected:target-unregistered",
		"rejected:target-blacklisted", "rejected:router-not-active", "accepted-after-whitelisting", "non-operator-rejected", "vote-recorded", "event-log-differential",
		"accepted:ripple-destination", "rejected:ripple-destination-blacklisted")
	vals := polyenv.Keys(nVal)
	polyenv.Setup(config.NETWORK_ID_MAIN_NET, vals)
	polyenv.InstallHeightLedger()
	polyenv.GlobalHeight = late

	// synthetic state of chain C holding every message C may ever send
	var cmsgs [][]byte
	cslot := map[string]int{}
	for _, y := range []uint64{A, B, R} {
		for k := 0; k <= maxK; k++ {
			cslot[string(msg(C, y, k))] = len(cmsgs)
			cmsgs = append(cmsgs, msg(C, y, k))
		}
	}
	cstate := ccm.NewEthState(ccm.HscCCMC(C), cmsgs)
	sc := map[uint64]ccm.SC{
		A: {ID: A, Router: utils.VOTE_ROUTER, Wait: 1, Name: "A", CCMC: []byte{0xa}},
		B: {ID: B, Router: utils.VOTE_ROUTER, Wait: 1, Name: "B", CCMC: []byte{0xb}},
		C: {ID: C, Router: utils.HSC_ROUTER, Wait: 1, Name: "C", CCMC: ccm.HscCCMC(C)},
		R: {ID: R, Router: utils.RIPPLE_ROUTER, Wait: 1, Name: "R", CCMC: []byte{0xd}, Extra: rippleExtra()},
	}
	q := ccm.Quorum(nVal)
	regTxs := func(x uint64) []*types.Transaction {
		t := []*types.Transaction{ccm.ApproveTx(x, vals[q-1], uint32(x))}
		if x == C {
			t = append(t, ccm.HscGenesisTx(C, cstate.Root, ccm.HscGenesisNumber, uint32(x), polyenv.Multi(vals)))
		}
		if x == R { // asset binding by the ripple operator + base fee voted by a quorum (view 0 -> 1)
			ap := &side_chain_manager.RegisterAssetParam{OperatorAddress: ccm.RippleOperator.Addr, ChainId: R,
				AssetMap: map[uint64][]byte{R: rVault}, LockProxyMap: map[uint64][]byte{R: rVault}}
			as := common.NewZeroCopySink(nil)
			ap.Serialization(as)
			t = append(t, polyenv.Tx(utils.SideChainManagerContractAddress, side_chain_manager.REGISTER_ASSET, as.Bytes(), uint32(x), polyenv.Single(ccm.RippleOperator)))
			for i := 0; i < q; i++ {
				fp := &side_chain_manager.UpdateFeeParam{Address: vals[i].Addr, ChainId: R, View: 0, Fee: big.NewInt(10)}
				fs := common.NewZeroCopySink(nil)
				fp.Serialization(fs)
				t = append(t, polyenv.Tx(utils.SideChainManagerContractAddress, side_chain_manager.UPDATE_FEE, fs.Bytes(), uint32(x), polyenv.Single(vals[i])))
			}
		}
		return t
	}
	// initial states
	w := polyenv.NewWorld()
	w.Genesis(vals)
	for _, x := range chains {
		ccm.Register(w, vals, sc[x], q-1, late) // application + q-1 approvals: one more approval registers
	}
	s0 := state{D: w.Dump(), Reg: map[uint64]bool{}, Black: map[uint64]bool{}, K: map[string]int{}}
	for _, x := range chains {
		for _, tx := range regTxs(x) {
			if res := w.Exec(tx, late, 1000); !res.OK {
				r.HarnessError("seeding registration of %s failed: %v", cname[x], res.Err)
			}
		}
	}
	s1 := state{D: w.Dump(), Reg: map[uint64]bool{A: true, B: true, C: true, R: true}, Black: map[uint64]bool{}, K: map[string]int{}}
	w.Close()

	weak := polyenv.Signer{Keys: vals, M: 2} // 2-of-4: an address different from the operator's 3-of-4
	pool := ccm.NewWorlds(16)
	pairs := [][2]uint64{{A, B}, {A, C}, {B, A}, {B, C}, {C, A}, {C, B}, {A, R}, {B, R}, {C, R}}
	t0 := time.Now()
	soft := 25 * time.Minute // keep the thorough tier inside its 30 min budget on a loaded machine (evidence then says capped)
	st := mc.BFS(mc.Config[state]{
		Init: []state{s0, s1}, MaxDepth: depth, Workers: 16, Stop: func() bool { return r.Expired() || time.Since(t0) > soft },
		Key: func(s state) string { return s.key() },
		Events: func(s state, d int) []string {
			var e []string
			for _, x := range chains {
				if !s.Reg[x] {
					e = append(e, "reg "+cname[x])
				}
				e = append(e, "black "+cname[x], "white "+cname[x], "black! "+cname[x], "white! "+cname[x])
			}
			for _, p := range pairs {
				e = append(e, fmt.Sprintf("imp %s>%s@late", cname[p[0]], cname[p[1]]))
			}
			e = append(e, "imp C>A@early", "imp C>B@early", "imp A>B@early")
			return e
		},
		Check: func(prev state, e string, next state, path []string) {
			// vacuity class: an import accepted although an endpoint was blacklisted earlier on this path
			if !strings.HasPrefix(e, "imp ") {
				return
			}
			acc := false
			for k, v := range next.K {
				if v > prev.K[k] {
					acc = true
				}
			}
			if !acc {
				return
			}
			p := strings.FieldsFunc(strings.Fields(e)[1], func(c rune) bool { return c == '>' || c == '@' })
			for _, pe := range path[:len(path)-1] {
				if pe == "black "+p[0] || pe == "black "+p[1] {
					r.Class("accepted-after-whitelisting")
					return
				}
			}
		},
		Step: func(s state, e string) (state, bool) {
			nx := s.clone()
			pool.With(s.D, func(w *ccm.W) {
				f := strings.Fields(e)
				det := map[string]any{"event": e, "registered": set(s.Reg), "blacklisted": set(s.Black)}
				switch f[0] {
				case "reg":
					x := cid[f[1]]
					for _, tx := range regTxs(x) {
						if res := w.Exec(tx, late, 1000); !res.OK {
							r.HarnessError("registration of %s failed: %v", f[1], res.Err)
						}
					}
					nx.Reg[x] = true
				case "black", "white", "black!", "white!":
					x := cid[f[1]]
					isWhite := strings.HasPrefix(f[0], "white")
					op := !strings.HasSuffix(f[0], "!")
					signer := polyenv.Multi(vals)
					if !op {
						signer = polyenv.Single(vals[0])
						if isWhite {
							signer = weak
						}
					}
					before := w.Dump()
					res := w.Exec(ccm.BlackTx(x, isWhite, 5, signer), late, 1000)
					after := w.Dump()
					r.Eval()
					det["tx_ok"], det["tx_err"] = res.OK, fmt.Sprint(res.Err)
					if !op {
						r.Class("non-operator-rejected")
						if res.OK || after.String() != before.String() {
							r.Violation("C21/"+strings.TrimSuffix(f[0], "!")+"chain-by-non-operator-accepted", det)
						}
						break
					}
					if !res.OK {
						r.Violation("C21/"+f[0]+"chain-by-operator-rejected", det)
						break
					}
					nx.Black[x] = !isWhite
					// exactly the blacklist key of x may change, and it must reflect the model
					for k := range before.Diff(after) {
						if k != ccm.BlackKey(x) {
							det["changed_key"] = fmt.Sprintf("%x", k)
							r.Violation("C21/"+f[0]+"chain-changed-foreign-state", det)
						}
					}
					if ccm.HasKey(after, ccm.BlackKey(x)) != nx.Black[x] {
						r.Violation("C21/"+f[0]+"chain-blacklist-record-wrong", det)
					}
				case "imp":
					var xs, ys, hs string
					p := strings.FieldsFunc(f[1], func(c rune) bool { return c == '>' || c == '@' })
					xs, ys, hs = p[0], p[1], p[2]
					x, y := cid[xs], cid[ys]
					h := uint32(late)
					if hs == "early" {
						h = early
					}
					pair := xs + ">" + ys
					k := s.K[pair]
					if k > maxK {
						r.HarnessError("message counter overflow")
					}
					m := msg(x, y, k)
					var txs []*types.Transaction
					if x == C {
						txs = []*types.Transaction{ccm.HscImport(C, ccm.HscGenesisNumber, cstate.Proof(cslot[string(m)], false), m, polyenv.Key(700), 9)}
					} else {
						for i := 0; i < q; i++ {
							txs = append(txs, ccm.VoteImport(x, 50, m, vals[i], 9))
						}
					}
					gateSrc := s.Reg[x] && !s.Black[x] && active(x, h)
					gateAll := gateSrc && s.Reg[y] && !s.Black[y]
					why := "open"
					switch {
					case !s.Reg[x]:
						why = "source-unregistered"
					case s.Black[x]:
						why = "source-blacklisted"
					case !active(x, h):
						why = "router-not-active"
					case !s.Reg[y]:
						why = "target-unregistered"
					case s.Black[y]:
						why = "target-blacklisted"
					}
					det["gate"], det["height"], det["msg_k"] = why, h, k
					released := false
					var last polyenv.Result
					lastUnchanged := true
					for i, tx := range txs {
						before := w.Dump()
						res := w.Exec(tx, h, 1000)
						after := w.Dump()
						r.Eval()
						last, lastUnchanged = res, before.String() == after.String()
						d := map[string]any{"tx_index": i, "tx_ok": res.OK, "tx_err": fmt.Sprint(res.Err), "cross_hashes": len(res.CrossHashes)}
						for kk, v := range det {
							d[kk] = v
						}
						if !res.OK && !lastUnchanged {
							r.Violation("C21/failed-import-tx-changed-state", d)
						}
						rel := res.OK && (len(res.CrossHashes) > 0 ||
							ccm.CountPrefix(after, ccm.RequestPrefix()) != ccm.CountPrefix(before, ccm.RequestPrefix()) ||
							ccm.CountPrefix(after, ccm.DonePrefix()) != ccm.CountPrefix(before, ccm.DonePrefix()))
						if rel {
							released = true
							if !gateAll {
								r.Violation("C21/import-accepted-through-closed-gate/"+why, d)
							}
							continue
						}
						if res.OK && !lastUnchanged { // a vote was recorded
							r.Class("vote-recorded")
							if !gateSrc {
								r.Violation("C21/vote-recorded-through-closed-source-gate/"+why, d)
							}
							for ck := range before.Diff(after) {
								if !strings.HasPrefix(ck, ccm.VotePrefix()) {
									d["changed_key"] = fmt.Sprintf("%x", ck)
									r.Violation("C21/unreleased-import-changed-non-vote-state", d)
								}
							}
						}
					}
					det["last_tx_ok"], det["last_tx_err"], det["accepted"] = last.OK, fmt.Sprint(last.Err), released
					switch {
					case gateAll && released:
						r.Class("import-accepted")
						if y == R {
							r.Class("accepted:ripple-destination")
						}
						r.Case("accepted/" + pair + "@" + hs)
						nx.K[pair] = k + 1
					case gateAll && !released:
						r.Violation("C21/valid-import-rejected-with-open-gate", det)
					case released:
						nx.K[pair] = k + 1 // already reported above
					default:
						r.Class("rejected:" + why)
						if y == R && why == "target-blacklisted" {
							r.Class("rejected:ripple-destination-blacklisted")
						}
						r.Case("rejected/" + why + "/" + pair + "@" + hs)
						if last.OK || !lastUnchanged {
							r.Violation("C21/rejected-import-not-failed-or-left-trace/"+why, det)
						}
					}
					if why != "open" {
						r.Sample(det)
					}
				}
				nx.D = w.Dump()
			})
			return nx, true
		},
	})
	if st.Truncated {
		r.Capped(fmt.Sprintf("BFS truncated by deadline in depth %d", st.MaxDepth+1))
	}
	// Environment switch --disable-event-log: one canonical history (accepted imports towards every kind of
	// destination, a blacklisted destination, whitelisting) is executed under EnableEventLog ∈ {true,false}; the
	// per-tx consensus outcome (ok, write set, cross hashes) must be identical and the gate must behave the same.
	impTxs := func(x, y uint64, k int) []*types.Transaction {
		m := msg(x, y, k)
		if x == C {
			return []*types.Transaction{ccm.HscImport(C, ccm.HscGenesisNumber, cstate.Proof(cslot[string(m)], false), m, polyenv.Key(700), 9)}
		}
		var t []*types.Transaction
		for i := 0; i < q; i++ {
			t = append(t, ccm.VoteImport(x, 50, m, vals[i], 9))
		}
		return t
	}
	type hstep struct {
		name   string
		txs    []*types.Transaction
		accept int // 1 accepted import, 0 rejected import, -1 not an import
	}
	hist := []hstep{
		{"A>B", impTxs(A, B, 0), 1}, {"C>A", impTxs(C, A, 0), 1}, {"A>R", impTxs(A, R, 0), 1}, {"C>R", impTxs(C, R, 0), 1},
		{"black B", []*types.Transaction{ccm.BlackTx(B, false, 5, polyenv.Multi(vals))}, -1},
		{"black R", []*types.Transaction{ccm.BlackTx(R, false, 5, polyenv.Multi(vals))}, -1},
		{"A>B (B black)", impTxs(A, B, 1), 0}, {"B>R (R black)", impTxs(B, R, 0), 0}, {"C>R (R black)", impTxs(C, R, 1), 0},
		{"white R", []*types.Transaction{ccm.BlackTx(R, true, 6, polyenv.Multi(vals))}, -1},
		{"A>R (R white again)", impTxs(A, R, 1), 1},
	}
	dig := map[string]string{}
	for _, evlog := range []bool{true, false} {
		config.DefConfig.Common.EnableEventLog = evlog
		pool.With(s1.D, func(w *ccm.W) {
			for _, hs := range hist {
				released := false
				var last polyenv.Result
				for i, tx := range hs.txs {
					before := w.Dump()
					res := w.Exec(tx, late, 1000)
					after := w.Dump()
					r.Eval()
					last = res
					if res.OK && ccm.CountPrefix(after, ccm.DonePrefix()) != ccm.CountPrefix(before, ccm.DonePrefix()) {
						released = true
					}
					k := fmt.Sprintf("%s/%d", hs.name, i)
					d := fmt.Sprintf("%v|%x|%q", res.OK, res.CrossHashes, res.WriteSet)
					if prev, ok := dig[k]; ok && prev != d {
						r.Violation("C21/result-depends-on-event-log-switch", map[string]any{"step": hs.name, "tx_index": i, "event_log": evlog})
					}
					dig[k] = d
				}
				det := map[string]any{"step": hs.name, "event_log": evlog, "last_tx_ok": last.OK, "last_tx_err": fmt.Sprint(last.Err)}
				if hs.accept == 1 && !released {
					r.Violation("C21/eventlog-history/valid-import-rejected", det)
				}
				if hs.accept == 0 && (released || last.OK) {
					r.Violation("C21/eventlog-history/import-accepted-through-closed-gate", det)
				}
				if hs.accept == -1 && !last.OK {
					r.HarnessError("event-log history step %s failed: %v", hs.name, last.Err)
				}
			}
		})
	}
	config.DefConfig.Common.EnableEventLog = true
	r.Class("event-log-differential")
	r.Assume("side chains are registered through the real registerSideChain/approveRegisterSideChain path; the initial state holds the applications with quorum-1 approvals so that one approval decides",
		"a vote below the quorum on an import whose source side passes the gate is legitimately recorded; target-side conditions are only evaluated by the quorum-completing transaction",
		"HSC genesis header and MPT state of chain C are synthetic (lib/ccm/hsc.go)")
	r.Finish(map[string]any{
		"rule":   "release ⇔ source,target registered ∧ neither blacklisted ∧ source router active at the tx height; rejected completing tx fails with unchanged dump",
		"states": st.States, "transitions": st.Transitions, "traces_validated_against_impl": st.Transitions, "max_depth": st.MaxDepth,
		"per_depth": st.PerDepth, "initial_states": []string{"nothing registered (applications pending)", "A,B,C registered"},
		"network": "main net; heights 18822999 / 18823000; routers: vote (A = chain 0, B = chain MaxUint64), hsc (C = chain 1), ripple destination (R = chain 24)",
	})
}
