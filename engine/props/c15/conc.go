package main

// Space E (schedules): two blocks executing CONCURRENTLY through the real ExecuteBlock on two ledgers holding the same
// committed state (consensus ExecuteBlock overlapping an RPC pre-execution / block sync of another node object in the same
// process). The executions share only package-level state of the execution engine, so each must produce exactly what the
// reference model says for it alone: an outcome of one transaction must not leak into another execution. Scheduling points:
// every CacheDB method (@yieldfuncs) and every sync primitive of native, native/storage, overlaydb and common
// (@syncshim-dir; sync.Pool = deterministic free list with points on both sides of Get/Put).

import (
	"fmt"

	"github.com/polynetwork/poly/common/verifhook/ssync"
	"github.com/polynetwork/poly/core/store"
	"verif.local/engine/lib/probe"
	"verif.local/engine/lib/sched"
)

func spaceE(wa, wb *probe.Worker, pre refState, bodies [][]probe.Op) map[string]any {
	bound := r.QT(1, 2)
	// block shapes: every effect kind (write, delete, merkle value, notification, nested call, failure) occurs both BEFORE and
	// AFTER further storage operations of the same transaction, so that a preemption can fall between an effect and the
	// end of its transaction
	mk := func(tag string, a, b []string) [][]probe.Op {
		return [][]probe.Op{probe.WithReads(probe.Prog(a, tag+"t0.")), probe.WithReads(probe.Prog(b, tag+"t1."))}
	}
	type shape struct{ a, b []string }
	shapes := []shape{
		{[]string{"MV", "PA", "GA"}, []string{"PB", "MV", "NT", "GB"}},
		{[]string{"PA", "NT", "FL"}, []string{"MV", "DA", "GA"}},
		{[]string{"NT", "C2", "PB", "GA"}, []string{"DA", "MV", "PB"}},
		{[]string{"C1", "PA", "GA"}, []string{"MV", "GA", "FL"}},
	}
	if r.Thorough() {
		shapes = append(shapes, shape{[]string{"PA", "PB", "DA", "GA"}, []string{"NT", "GA", "NT", "GB"}}, shape{[]string{"C3", "MV", "GA"}, []string{"C2", "GA"}})
	}
	_ = bodies
	total := sched.Stats{}
	pairs := 0
	for xi, sx := range shapes {
		for yi, sy := range shapes {
			if r.Expired() {
				r.Capped("spaceE")
				break
			}
			pairs++
			progs := [2][][]probe.Op{mk(fmt.Sprintf("e%d.x.", xi), sx.a, sx.b), mk(fmt.Sprintf("e%d.y.", yi), sy.a, sy.b)}
			ws := [2]*probe.Worker{wa, wb}
			st := sched.Explore(bound, r.Expired, func(prefix []int) ssync.Exec {
				var res [2]store.ExecuteResult
				var errs [2]error
				bodiesF := make([]func(), 2)
				t0, t1 := mkTxs(progs[0]), mkTxs(progs[1])
				bodiesF[0] = func() { res[0], errs[0] = ws[0].Exec(t0) }
				bodiesF[1] = func() { res[1], errs[1] = ws[1].Exec(t1) }
				x := ssync.Run(bodiesF, prefix)
				r.Eval()
				if x.Deadlock || len(x.Panics) > 0 {
					report("concurrent-blocks:deadlock-or-panic", blockSize(progs[0])+blockSize(progs[1]),
						map[string]any{"schedule": fmt.Sprint(x.Choices), "panics": x.Panics, "block0": showBlock(progs[0]), "block1": showBlock(progs[1])})
					return x
				}
				compare(fmt.Sprintf("E-concurrent(schedule %v)/thread0", x.Choices), pre, progs[0], t0, res[0], errs[0], refBlock(pre, progs[0]))
				compare(fmt.Sprintf("E-concurrent(schedule %v)/thread1", x.Choices), pre, progs[1], t1, res[1], errs[1], refBlock(pre, progs[1]))
				return x
			})
			total.Schedules += st.Schedules
			total.Points += st.Points
			if st.MaxPoints > total.MaxPoints {
				total.MaxPoints = st.MaxPoints
			}
			if st.Capped {
				r.Capped("spaceE: schedules of a pair not completed")
			}
		}
	}
	r.Class("concurrent-blocks-explored")
	return map[string]any{"block_pairs": pairs, "preemption_bound": bound, "schedules": total.Schedules, "scheduling_points_total": total.Points,
		"longest_execution_points": total.MaxPoints}
}
