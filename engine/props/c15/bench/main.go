package main

import (
	"fmt"
	"os"
	"runtime"
	"sync"
	"time"

	"github.com/polynetwork/poly/core/types"
	_ "github.com/polynetwork/poly/native/service"
	"verif.local/engine/lib/probe"
	"verif.local/engine/polyenv"
)

func main() {
	vals := polyenv.Keys(4)
	polyenv.Setup(0, vals)
	probe.Install()
	s := polyenv.Key(20)
	nw := 16
	if len(os.Args) > 1 {
		fmt.Sscan(os.Args[1], &nw)
	}
	var ballast []byte

	pool := probe.NewPool(nw, vals, "c15b-", func(w *probe.Worker) {
		w.Commit([]*types.Transaction{probe.Tx([]probe.Op{{C: probe.Put, K: 'a', V: "A-seed"}}, 1000, s)})
	})
	defer probe.ClosePool(pool)
	bodies := probe.Bodies([]string{"PA", "PB", "DA", "MV", "NT", "FL", "C1", "C2"}, 2, "")
	t0 := time.Now()
	var wg sync.WaitGroup
	for _, w := range pool {
		wg.Add(1)
		go func(w *probe.Worker) {
			defer wg.Done()
			for i := 0; i < 10; i++ {
				for j := 0; j < len(bodies); j++ {
					progs := [][]probe.Op{probe.WithReads(probe.Relabel(bodies[i], "t0.")), probe.WithReads(probe.Relabel(bodies[j], "t1."))}
					w.Exec([]*types.Transaction{probe.Tx(progs[0], 1, s), probe.Tx(progs[1], 2, s)})
				}
			}
		}(w)
	}
	wg.Wait()
	n := nw * 10 * len(bodies)
	fmt.Println("blocks", n, "wall", time.Since(t0), "per block", time.Since(t0)/time.Duration(n))
	runtime.KeepAlive(ballast)
}
