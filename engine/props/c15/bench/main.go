package main

import (
	"fmt"
	"os"
	"runtime/pprof"
	"time"

	"github.com/polynetwork/poly/core/types"
	_ "github.com/polynetwork/poly/native/service"
	"verif.local/engine/lib/probe"
	"verif.local/engine/polyenv"
)

func main() {
	vals := polyenv.Keys(4)
	polyenv.Setup(0, vals)
	probe.Install()
	s := polyenv.Key(20)
	pool := probe.NewPool(1, vals, "c15b-", nil)
	defer probe.ClosePool(pool)
	w := pool[0]
	p := []probe.Op{{C: probe.Put, K: 'a', V: "x"}, {C: probe.Get, K: 'a'}, {C: probe.Merkle, V: "m"}}
	f, _ := os.Create("/tmp/c15b.prof")
	pprof.StartCPUProfile(f)
	t0 := time.Now()
	var txs []*types.Transaction
	for i := 0; i < 2000; i++ {
		txs = []*types.Transaction{probe.Tx(p, uint32(i), s)}
	}
	fmt.Println("tx build", time.Since(t0)/2000)
	t0 = time.Now()
	var b *types.Block
	for i := 0; i < 2000; i++ {
		b = w.DryBlock(txs)
	}
	fmt.Println("dryblock", time.Since(t0)/2000)
	t0 = time.Now()
	for i := 0; i < 2000; i++ {
		w.Ch.L.ExecuteBlock(b)
	}
	fmt.Println("exec", time.Since(t0)/2000)
	pprof.StopCPUProfile()
}
