// C15 — transaction execution is atomic.
//
// A probe native contract (engine/lib/probe) interprets tiny programs
//
//	Put k v | Del k | Get k | MerkleVal d | Notify s | Call sub | Fail
//
// inside the REAL NativeService / CacheDB / HandleInvokeTransaction / executeBlock. Blocks of probe
// transactions are executed through the real on-disk ledger (LedgerStoreImp.ExecuteBlock, SubmitBlock) and
// ExecuteResult{WriteSet, CrossHashes, Notify} + post-submit storage / event store / cross-state store are
// compared with a boring reference: the fold of the SUCCESSFUL programs only.
//
// Spaces (all exhaustive within the stated bounds):
//
//	A  one-transaction blocks: every program of length <= L over {PutA PutB DelA GetA GetB MerkleVal Notify Fail}
//	   ∪ {Call(sub)}, sub = every sequence of length <= 2 over the same flat alphabet (Fail at every position,
//	   also inside the callee, after writes, after MerkleVal); plus all doubly nested programs of a fixed shape.
//	B  blocks of 2 and 3 transactions in every order (ordered tuples with repetition) over a body set,
//	   every transaction starting with the read prologue [Get a, Get b].
//	C  committed chains: blocks are really submitted one after another; after each submit the persistent
//	   contract storage, the event store and the cross-state store are compared with the reference.
//	D  real native calls (node_manager register/unregister/approve, failing and succeeding) mixed with probe
//	   transactions; metamorphic oracle: deleting the failed transactions from a block changes nothing.
package main

import (
	"crypto/sha256"
	"encoding/hex"
	"encoding/json"
	"fmt"
	"os"
	"runtime"
	"sort"
	"strings"
	"sync"
	"sync/atomic"
	"time"

	"github.com/polynetwork/poly/common"
	"github.com/polynetwork/poly/core/store"
	scom "github.com/polynetwork/poly/core/store/common"
	"github.com/polynetwork/poly/core/store/ledgerstore"
	"github.com/polynetwork/poly/core/types"
	"github.com/polynetwork/poly/native/event"
	_ "github.com/polynetwork/poly/native/service"
	"github.com/polynetwork/poly/native/service/governance/node_manager"
	"github.com/polynetwork/poly/native/service/utils"
	"verif.local/engine/ev"
	"verif.local/engine/lib/ccm"
	"verif.local/engine/lib/probe"
	"verif.local/engine/polyenv"
)

// ---------------------------------------------------------------------------------------------
// violation collection: keep the smallest witness per key

type cand struct {
	size   int
	detail any
}

var (
	vmu   sync.Mutex
	viols = map[string]cand{}
)

func report(key string, size int, detail any) {
	vmu.Lock()
	defer vmu.Unlock()
	if c, ok := viols[key]; ok && c.size <= size {
		return
	}
	viols[key] = cand{size, detail}
}

// ---------------------------------------------------------------------------------------------
// reference model (shares no code with the implementation)

type refState map[byte]string // cell -> value; absent = not stored

func (s refState) clone() refState {
	o := refState{}
	for k, v := range s {
		o[k] = v
	}
	return o
}

func (s refState) String() string {
	var ks []string
	for k, v := range s {
		ks = append(ks, fmt.Sprintf("%c=%s", k, v))
	}
	sort.Strings(ks)
	return "{" + strings.Join(ks, ",") + "}"
}

func leafHash(d []byte) common.Uint256 { // RFC 6962 leaf hash
	return common.Uint256(sha256.Sum256(append([]byte{0}, d...)))
}

type frame struct {
	notes  []string
	hashes []common.Uint256
}

type refRun struct {
	base    refState
	touched map[byte]*string // nil = deleted
}

func (r *refRun) look(k byte) (string, bool) {
	if p, ok := r.touched[k]; ok {
		if p == nil {
			return "", false
		}
		return *p, true
	}
	v, ok := r.base[k]
	return v, ok
}

// exec interprets ops; ok=false means the failure propagated out of this frame.
func (r *refRun) exec(ops []probe.Op) (f frame, ok bool) {
	for _, o := range ops {
		switch o.C {
		case probe.Put:
			v := o.V
			r.touched[o.K] = &v
		case probe.Del:
			r.touched[o.K] = nil
		case probe.Get:
			if v, present := r.look(o.K); present {
				f.notes = append(f.notes, probe.ReadNote(o.K, probe.Item(v)))
			} else {
				f.notes = append(f.notes, probe.ReadNote(o.K, nil))
			}
		case probe.Merkle:
			f.hashes = append(f.hashes, leafHash([]byte(o.V)))
		case probe.Notify:
			f.notes = append(f.notes, "note:"+o.V)
		case probe.Call:
			sf, sok := r.exec(o.Sub)
			if !sok {
				return f, false
			}
			f.notes = append(f.notes, sf.notes...)
			f.hashes = append(f.hashes, sf.hashes...) // order inside a nested call is compared as a multiset
		case probe.Fail:
			return f, false
		}
	}
	return f, true
}

type txExp struct {
	ok     bool
	notes  []string
	hashes []common.Uint256
	nested bool
}

type blockExp struct {
	txs    []txExp
	writes map[byte]*string // keys touched by successful transactions, final value (nil = deleted)
	post   refState
	failed int
}

func refBlock(pre refState, progs [][]probe.Op) blockExp {
	e := blockExp{writes: map[byte]*string{}, post: pre.clone()}
	for _, p := range progs {
		run := &refRun{base: e.post, touched: map[byte]*string{}}
		f, ok := run.exec(p)
		t := txExp{ok: ok, nested: probe.HasCall(p)}
		if ok {
			t.notes, t.hashes = f.notes, f.hashes
			for k, v := range run.touched {
				e.writes[k] = v
				if v == nil {
					delete(e.post, k)
				} else {
					e.post[k] = *v
				}
			}
		} else {
			e.failed++
		}
		e.txs = append(e.txs, t)
	}
	return e
}

// ---------------------------------------------------------------------------------------------
// comparison of an ExecuteResult with the reference

func rawKey(k byte) string {
	return string(append([]byte{byte(scom.ST_STORAGE)}, probe.StorageKey(k)...))
}

func hx(hs []common.Uint256) []string {
	out := make([]string, len(hs))
	for i, h := range hs {
		out[i] = h.ToHexString()[:12]
	}
	return out
}

func multisetEq(a, b []common.Uint256) bool {
	if len(a) != len(b) {
		return false
	}
	m := map[common.Uint256]int{}
	for _, x := range a {
		m[x]++
	}
	for _, x := range b {
		m[x]--
		if m[x] < 0 {
			return false
		}
	}
	return true
}

func seqEq(a, b []common.Uint256) bool {
	if len(a) != len(b) {
		return false
	}
	for i := range a {
		if a[i] != b[i] {
			return false
		}
	}
	return true
}

func notesOf(n *event.ExecuteNotify) []string {
	var out []string
	for _, x := range n.Notify {
		out = append(out, fmt.Sprint(x.States))
	}
	return out
}

func showBlock(progs [][]probe.Op) []string {
	out := make([]string, len(progs))
	for i, p := range progs {
		out[i] = probe.Show(p)
	}
	return out
}

func blockSize(progs [][]probe.Op) int {
	n := 0
	for _, p := range progs {
		n += 1 + probe.Size(p)
	}
	return n
}

var nestedOrderPrepend, nestedOrderOther int64

func compare(space string, pre refState, progs [][]probe.Op, txs []*types.Transaction, res store.ExecuteResult, err error, exp blockExp) bool {
	size := blockSize(progs)
	good := true
	bad := func(key string, what any) {
		good = false
		suffix := ""
		if exp.failed > 0 {
			suffix = ":block-has-failed-tx"
		}
		report(key+suffix, size, map[string]any{"space": space, "pre_state": pre.String(), "block": showBlock(progs),
			"problem": what, "expected_post_state": exp.post.String()})
	}
	if err != nil {
		bad("execute-block-error", err.Error())
		return false
	}
	// notifications
	if len(res.Notify) != len(progs) {
		bad("notify/count", fmt.Sprintf("got %d notify records for %d transactions", len(res.Notify), len(progs)))
		return false
	}
	var expHashes []common.Uint256
	for i, t := range exp.txs {
		n := res.Notify[i]
		if n.TxHash != txs[i].Hash() {
			bad("notify/txhash", fmt.Sprintf("tx %d", i))
		}
		got := notesOf(n)
		if t.ok {
			if n.State != event.CONTRACT_STATE_SUCCESS {
				bad("success-tx/reported-failed", fmt.Sprintf("tx %d state=%d", i, n.State))
			}
			if strings.Join(got, "|") != strings.Join(t.notes, "|") {
				readDiff := false
				if len(got) == len(t.notes) {
					for j := range got {
						if got[j] != t.notes[j] && strings.HasPrefix(t.notes[j], "read:") {
							readDiff = true
						}
					}
				}
				if readDiff {
					bad("read/saw-state-other-than-committed-prefix", map[string]any{"tx": i, "got": got, "want": t.notes})
				} else {
					bad("success-tx/events-differ", map[string]any{"tx": i, "got": got, "want": t.notes})
				}
			}
		} else {
			if n.State != event.CONTRACT_STATE_FAIL {
				bad("failed-tx/reported-success", fmt.Sprintf("tx %d state=%d", i, n.State))
			}
			if len(got) != 0 {
				bad("failed-tx/events-kept", map[string]any{"tx": i, "got": got})
			}
		}
		expHashes = append(expHashes, t.hashes...)
	}
	// cross-chain records
	if len(res.CrossHashes) != len(expHashes) {
		switch {
		case len(res.CrossHashes) > len(expHashes):
			bad("crosshashes/extra", map[string]any{"got": hx(res.CrossHashes), "want": hx(expHashes)})
		default:
			bad("crosshashes/missing", map[string]any{"got": hx(res.CrossHashes), "want": hx(expHashes)})
		}
	} else {
		off := 0
		for i, t := range exp.txs {
			seg := res.CrossHashes[off : off+len(t.hashes)]
			off += len(t.hashes)
			if t.nested {
				if !multisetEq(seg, t.hashes) {
					bad("crosshashes/wrong", map[string]any{"tx": i, "got": hx(seg), "want_multiset": hx(t.hashes)})
				} else if len(seg) > 1 {
					if seqEq(seg, t.hashes) {
						atomic.AddInt64(&nestedOrderOther, 1)
					} else {
						atomic.AddInt64(&nestedOrderPrepend, 1)
					}
				}
			} else if !seqEq(seg, t.hashes) {
				if multisetEq(seg, t.hashes) {
					bad("crosshashes/order", map[string]any{"tx": i, "got": hx(seg), "want": hx(t.hashes)})
				} else {
					bad("crosshashes/wrong", map[string]any{"tx": i, "got": hx(seg), "want": hx(t.hashes)})
				}
			}
		}
	}
	// write set
	ws := probe.WriteSet(res)
	want := map[string]string{}
	for k, v := range exp.writes {
		if v == nil {
			want[rawKey(k)] = ""
		} else {
			want[rawKey(k)] = string(probe.Item(*v))
		}
	}
	for k, v := range ws {
		w, ok := want[k]
		if !ok {
			bad("writeset/extra-key", map[string]any{"key": hex.EncodeToString([]byte(k)), "value": hex.EncodeToString([]byte(v))})
		} else if w != v {
			bad("writeset/wrong-value", map[string]any{"key": hex.EncodeToString([]byte(k)), "got": hex.EncodeToString([]byte(v)), "want": hex.EncodeToString([]byte(w))})
		}
	}
	for k := range want {
		if _, ok := ws[k]; !ok {
			bad("writeset/missing-key", map[string]any{"key": hex.EncodeToString([]byte(k))})
		}
	}
	return good
}

// ---------------------------------------------------------------------------------------------

var (
	r      *ev.Run
	vals   []*polyenv.Acct
	signer *polyenv.Acct
	nW     int

	blocksRun, txsRun, txOK, txFail, txFailAfterWrite, txFailAfterMerkle, txFailNested int64
	readsChecked                                                                       int64
)

var (
	stMu       sync.Mutex
	modelState = map[string]struct{}{}
)

func caseKey(space string, progs [][]probe.Op, exp blockExp) {
	ps := exp.post.String()
	stMu.Lock()
	modelState[ps] = struct{}{}
	stMu.Unlock()
	var b strings.Builder
	b.WriteString(space)
	for _, t := range exp.txs {
		if t.ok {
			fmt.Fprintf(&b, "/ok:n%d,h%d", len(t.notes), len(t.hashes))
		} else {
			b.WriteString("/fail")
		}
	}
	fmt.Fprintf(&b, "/w%d", len(exp.writes))
	r.Case(b.String())
	if exp.failed > 0 && exp.failed < len(progs) {
		r.Sample(map[string]any{"space": space, "block": showBlock(progs), "expected_post_state": exp.post.String()})
	}
}

func mkTxs(progs [][]probe.Op) []*types.Transaction {
	txs := make([]*types.Transaction, len(progs))
	for i, p := range progs {
		txs[i] = probe.Tx(p, uint32(i+1), signer)
	}
	return txs
}

// classify a program for the vacuity counters
func classify(p []probe.Op, exp txExp) {
	atomic.AddInt64(&txsRun, 1)
	if exp.ok {
		atomic.AddInt64(&txOK, 1)
		for _, n := range exp.notes {
			if strings.HasPrefix(n, "read:") {
				atomic.AddInt64(&readsChecked, 1)
			}
		}
		return
	}
	atomic.AddInt64(&txFail, 1)
	w, m, nested := failShape(p, false, false)
	if w {
		atomic.AddInt64(&txFailAfterWrite, 1)
	}
	if m {
		atomic.AddInt64(&txFailAfterMerkle, 1)
	}
	if nested {
		atomic.AddInt64(&txFailNested, 1)
	}
}

// failShape: did a write / a MerkleVal precede the (first) Fail, and is that Fail inside a callee?
func failShape(p []probe.Op, w, m bool) (bool, bool, bool) {
	for _, o := range p {
		switch o.C {
		case probe.Put, probe.Del:
			w = true
		case probe.Merkle:
			m = true
		case probe.Fail:
			return w, m, false
		case probe.Call:
			if hasFail(o.Sub) {
				w2, m2, _ := failShape(o.Sub, w, m)
				return w2, m2, true
			}
			w2, m2, _ := failShape(o.Sub, w, m)
			w, m = w2, m2
		}
	}
	return w, m, false
}

func hasFail(p []probe.Op) bool {
	for _, o := range p {
		if o.C == probe.Fail || (o.C == probe.Call && hasFail(o.Sub)) {
			return true
		}
	}
	return false
}

func runBlock(w *probe.Worker, space string, pre refState, progs [][]probe.Op) {
	exp := refBlock(pre, progs)
	txs := mkTxs(progs)
	res, err := w.Exec(txs)
	atomic.AddInt64(&blocksRun, 1)
	for i, p := range progs {
		classify(p, exp.txs[i])
	}
	r.Eval()
	caseKey(space, progs, exp)
	compare(space, pre, progs, txs, res, err, exp)
}

// runOne executes a one-transaction block through the real handleTransaction on the worker's reusable overlay.
func runOne(w *probe.Worker, space string, pre refState, p []probe.Op) {
	progs := [][]probe.Op{p}
	exp := refBlock(pre, progs)
	txs := mkTxs(progs)
	res, err := w.Ch.L.VerifC15ExecOne(sandbox[w.ID], w.DryHeader(), txs[0])
	atomic.AddInt64(&blocksRun, 1)
	classify(p, exp.txs[0])
	r.Eval()
	caseKey(space, progs, exp)
	compare(space, pre, progs, txs, res, err, exp)
}

var sandbox []*ledgerstore.VerifC15Sandbox

// parallel runs f(worker, job) for every job produced by gen, on the worker pool.
func parallel(pool []*probe.Worker, gen func(emit func(job any) bool), f func(w *probe.Worker, job any)) (capped bool) {
	ch := make(chan any, 4*len(pool))
	var stop int32
	var wg sync.WaitGroup
	for _, w := range pool {
		wg.Add(1)
		go func(w *probe.Worker) {
			defer wg.Done()
			for j := range ch {
				if atomic.LoadInt32(&stop) != 0 {
					continue
				}
				f(w, j)
			}
		}(w)
	}
	n := 0
	gen(func(job any) bool {
		n++
		if n%16 == 0 && (r.Expired() || time.Now().After(softDeadline)) { // the enumeration phases stop at 85% of the budget so that C and D always run
			atomic.StoreInt32(&stop, 1)
			return false
		}
		ch <- job
		return true
	})
	close(ch)
	wg.Wait()
	return atomic.LoadInt32(&stop) != 0
}

func seedProg(pre refState) []probe.Op {
	var p []probe.Op
	for _, k := range []byte{'a', 'b'} {
		if v, ok := pre[k]; ok {
			p = append(p, probe.Op{C: probe.Put, K: k, V: v})
		}
	}
	return p
}

func main() {
	r = ev.Start("C15", "model_checking")
	r.Require("tx-success", "tx-fail", "tx-fail-after-write", "tx-fail-after-merkleval", "tx-fail-inside-callee",
		"block-mixed", "committed-block", "real-tx-success", "real-tx-fail", "real-tx-fail-after-writes", "concurrent-blocks-explored")
	vals = polyenv.Keys(4)
	polyenv.Setup(0, vals)
	polyenv.InstallHeightLedger()
	probe.Install()
	signer = polyenv.Key(20)
	nW = runtime.NumCPU()
	if nW > 16 {
		nW = 16
	}
	if nW < 2 {
		nW = 2
	}

	L := r.QT(4, 5)
	LReal := r.QT(2, 3)
	var subAlpha []string // alphabet of the callee programs in Space A (nil = full flat alphabet)
	if r.Quick() {
		subAlpha = []string{"PA", "DA", "GA", "MV", "NT", "FL"}
	}
	softDeadline = time.Now().Add(time.Duration(0.85 * float64(budget(r))))
	maxCalls := 1
	bodyAlpha := []string{"PA", "PB", "DA", "MV", "NT", "FL", "C1", "C2"}
	if r.Thorough() {
		bodyAlpha = []string{"PA", "PB", "DA", "DB", "GA", "MV", "NT", "FL", "C1", "C2", "C3"}
	}
	bodies := probe.Bodies(bodyAlpha, 2, "")
	// real ExecuteBlock costs ~4 ms per block on this box whatever the parallelism (4 MB overlay per block is
	// page-fault bound), so the triple space uses a smaller body alphabet
	body3Alpha := []string{"PA", "DA", "MV", "FL"}
	if r.Thorough() {
		body3Alpha = []string{"PA", "PB", "DA", "MV", "NT", "FL", "C2"}
	}
	bodies3 := probe.Bodies(body3Alpha, 2, "")
	cov := map[string]any{}
	spaceCount := map[string]int64{}
	var scMu sync.Mutex
	addCount := func(k string, n int64) { scMu.Lock(); spaceCount[k] += n; scMu.Unlock() }
	phase := map[string]float64{}
	t0 := time.Now()
	lap := func(k string) { phase[k] += time.Since(t0).Seconds(); t0 = time.Now() }

	prestates := []refState{{'a': "A-seed"}, {'b': "B-seed"}}
	for pi, pre := range prestates {
		pre := pre
		pool := probe.NewPool(nW, vals, "c15-", func(w *probe.Worker) {
			if _, _, err := w.Commit([]*types.Transaction{probe.Tx(seedProg(pre), 1000, signer)}); err != nil {
				r.HarnessError("seed commit: %v", err)
			}
		})
		// the seed itself must be visible (canonical well-formed case)
		{
			got := pool[0].Ch.L.VerifC15RawState(append([]byte{byte(scom.ST_STORAGE)}, probe.Addr[:]...))
			if len(got) != len(pre) {
				r.HarnessError("seed state not as expected: %d keys", len(got))
			}
		}
		tag := fmt.Sprintf("pre%d", pi)
		lap("open-ledgers")
		sandbox = make([]*ledgerstore.VerifC15Sandbox, len(pool))
		for i, w := range pool {
			sandbox[i] = w.Ch.L.VerifC15NewSandbox()
		}

		// ---- Space E first: schedules of two concurrent block executions, under the controlled scheduler (one thread runs at
		// a time). A change that makes executions share package-level state turns the free-running 16-worker phases below into
		// genuine data races (memory corruption, crashes), so when E reports anything the run ends here with that verdict.
		if pi == 0 {
			cov["E_concurrent_blocks"] = spaceE(pool[0], pool[1], pre, bodies3)
			lap("E")
			vmu.Lock()
			nv := len(viols)
			vmu.Unlock()
			if nv > 0 {
				cov["stopped_after_space_E"] = "a concurrent-execution violation was found; free-running parallel phases skipped"
				probe.ClosePool(pool)
				break
			}
		}

		// ---- Space A: one-transaction blocks
		if pi == 0 || r.Thorough() {
			var n, nReal int64
			capped := parallel(pool, func(emit func(any) bool) {
				batch := make([][]probe.Op, 0, 128)
				probe.SpaceA(L, 2, maxCalls, subAlpha, func(p []probe.Op) bool {
					batch = append(batch, p)
					if len(batch) == 128 {
						if !emit(batch) {
							return false
						}
						batch = make([][]probe.Op, 0, 128)
					}
					return true
				})
				emit(batch)
			}, func(w *probe.Worker, job any) {
				for _, p := range job.([][]probe.Op) {
					runOne(w, "A", pre, p)
					atomic.AddInt64(&n, 1)
					if len(p) <= LReal { // the shorter programs additionally through the real ExecuteBlock (fresh overlay per block)
						runBlock(w, "A-ExecuteBlock", pre, [][]probe.Op{p})
						atomic.AddInt64(&nReal, 1)
					}
				}
			})
			if capped {
				r.Capped("spaceA/" + tag)
			}
			addCount("A_single_tx_programs(handleTransaction)", n)
			addCount("A_single_tx_programs(ExecuteBlock)", nReal)
			lap("A")
			// doubly nested shape
			var n2 int64
			alpha2 := []string{"--", "PA", "GA", "MV", "FL"}
			if r.Thorough() {
				alpha2 = []string{"--", "PA", "DA", "GA", "MV", "NT", "FL"}
			}
			capped = parallel(pool, func(emit func(any) bool) {
				batch := make([][]probe.Op, 0, 128)
				probe.SpaceA2(alpha2, func(p []probe.Op) bool {
					batch = append(batch, p)
					if len(batch) == 128 {
						if !emit(batch) {
							return false
						}
						batch = make([][]probe.Op, 0, 128)
					}
					return true
				})
				emit(batch)
			}, func(w *probe.Worker, job any) {
				for _, p := range job.([][]probe.Op) {
					runOne(w, "A2", pre, p)
					atomic.AddInt64(&n2, 1)
				}
			})
			if capped {
				r.Capped("spaceA2/" + tag)
			}
			addCount("A2_doubly_nested_programs", n2)
			lap("A2")
		}

		// ---- Space B: blocks of 2 and 3 transactions, all orders
		mkFrom := func(bs [][]probe.Op, idx ...int) [][]probe.Op {
			out := make([][]probe.Op, len(idx))
			for i, b := range idx {
				out[i] = probe.WithReads(probe.Relabel(bs[b], fmt.Sprintf("t%d.", i)))
			}
			return out
		}
		var nb2, nb3 int64
		b2 := bodies
		if pi > 0 && r.Quick() {
			b2 = bodies3 // second pre-state: reduced body set in the quick tier
		}
		capped := parallel(pool, func(emit func(any) bool) {
			for i := range b2 {
				for j := range b2 {
					if !emit([2]int{i, j}) {
						return
					}
				}
			}
		}, func(w *probe.Worker, job any) {
			ij := job.([2]int)
			runBlock(w, "B2", pre, mkFrom(b2, ij[0], ij[1]))
			atomic.AddInt64(&nb2, 1)
		})
		if capped {
			r.Capped("spaceB2/" + tag)
		}
		addCount("B_blocks_of_2", nb2)
		lap("B2")
		if pi == 0 {
			capped = parallel(pool, func(emit func(any) bool) {
				for i := range bodies3 {
					for j := range bodies3 {
						for k := range bodies3 {
							if !emit([3]int{i, j, k}) {
								return
							}
						}
					}
				}
			}, func(w *probe.Worker, job any) {
				x := job.([3]int)
				runBlock(w, "B3", pre, mkFrom(bodies3, x[0], x[1], x[2]))
				atomic.AddInt64(&nb3, 1)
			})
			if capped {
				r.Capped("spaceB3/" + tag)
			}
			addCount("B_blocks_of_3", nb3)
			lap("B3")
		}

		// ---- Space C: really submitted chains
		if pi == 0 || r.Thorough() {
			cBodies := probe.Bodies([]string{"PA", "PB", "DA", "MV", "NT", "FL", "C2"}, 2, "")
			var nc int64
			var jobs [][2]int
			for i := range cBodies {
				for j := range cBodies {
					jobs = append(jobs, [2]int{i, j})
				}
			}
			per := (len(jobs) + len(pool) - 1) / len(pool)
			var wg sync.WaitGroup
			for wi, w := range pool {
				lo, hi := wi*per, (wi+1)*per
				if lo > len(jobs) {
					lo = len(jobs)
				}
				if hi > len(jobs) {
					hi = len(jobs)
				}
				wg.Add(1)
				go func(w *probe.Worker, mine [][2]int) {
					defer wg.Done()
					st := pre.clone()
					for bi, ij := range mine {
						if r.Expired() {
							r.Capped("spaceC/" + tag)
							return
						}
						progs := [][]probe.Op{
							probe.WithReads(probe.Relabel(cBodies[ij[0]], fmt.Sprintf("w%d.b%d.t0.", w.ID, bi))),
							probe.WithReads(probe.Relabel(cBodies[ij[1]], fmt.Sprintf("w%d.b%d.t1.", w.ID, bi))),
						}
						st = commitAndCheck(w, st, progs)
						atomic.AddInt64(&nc, 1)
					}
				}(w, jobs[lo:hi])
			}
			wg.Wait()
			addCount("C_committed_blocks", nc)
			lap("C")
		}

		if pi == 0 {
			spaceD(pool[0])
			observations(pool[0], pre)
			spaceD2(pool[0]) // commits seed blocks on this worker's ledger: must stay the last user of pool[0]
			lap("D")
		}
		probe.ClosePool(pool)
	}

	// ---- outcome classes / vacuity
	note := func(class string, n int64) {
		for i := int64(0); i < n && i < 1; i++ {
			r.Class(class)
		}
		cov["n_"+class] = n
	}
	note("tx-success", txOK)
	note("tx-fail", txFail)
	note("tx-fail-after-write", txFailAfterWrite)
	note("tx-fail-after-merkleval", txFailAfterMerkle)
	note("tx-fail-inside-callee", txFailNested)
	note("block-mixed", mixedBlocks)
	note("committed-block", committedBlocks)

	vmu.Lock()
	keys := make([]string, 0, len(viols))
	for k := range viols {
		keys = append(keys, k)
	}
	sort.Strings(keys)
	for _, k := range keys {
		r.Violation(k, viols[k].detail)
	}
	vmu.Unlock()

	r.Assume("the probe contract only dispatches to the real NativeService/CacheDB primitives; no real native contract nests NativeCall (grep), so nested-call behaviour is exercised through the probe only",
		"cross hashes emitted inside a nested Call are compared as a multiset per transaction (Invoke prepends the callee's hashes; the property fixes no order); flat programs and transaction order are compared as sequences",
		"a callee error swallowed by the caller (Try) is not a failing transaction: observed and recorded in notes, never alarmed")
	cov["rule"] = "ExecuteResult{WriteSet,CrossHashes,Notify} and post-submit storage/event/cross-state stores == fold of the successful programs only; reads in tx j == committed effects of successful tx<j plus own writes"
	cov["spaces"] = spaceCount
	cov["phase_seconds"] = phase
	cov["bounds"] = map[string]any{"A_max_len": L, "A_sub_len": 2, "A_sub_alphabet": subAlpha, "A_max_calls": maxCalls, "B_body_alphabet": bodyAlpha, "B_body_len": 2,
		"B_bodies": len(bodies), "B3_body_alphabet": body3Alpha, "B3_bodies": len(bodies3), "A_ExecuteBlock_max_len": LReal, "block_sizes": "1,2,3", "prestates": len(prestates), "workers": nW}
	cov["states"] = len(modelState)               // distinct reference-model storage states reached
	cov["transitions"] = blocksRun                // blocks executed by the real code (pre-state -> post-state)
	cov["traces_validated_against_impl"] = txsRun // transactions whose real outcome was compared with the reference
	cov["max_depth"] = 3
	cov["reads_checked"] = readsChecked
	cov["nested_crosshash_order"] = map[string]int64{"callee-first(prepend)": nestedOrderPrepend, "program-order": nestedOrderOther}
	r.Finish(cov)
}

var mixedBlocks, committedBlocks int64
var softDeadline time.Time

func budget(r *ev.Run) time.Duration {
	for i, a := range os.Args {
		if a == "--budget" || a == "-budget" {
			if i+1 < len(os.Args) {
				if d, err := time.ParseDuration(os.Args[i+1]); err == nil && d > 0 {
					return d
				}
			}
		}
		if strings.HasPrefix(a, "--budget=") || strings.HasPrefix(a, "-budget=") {
			if d, err := time.ParseDuration(a[strings.Index(a, "=")+1:]); err == nil && d > 0 {
				return d
			}
		}
	}
	if r.Quick() {
		return 4 * time.Minute
	}
	return 40 * time.Minute
}

// commitAndCheck really submits the block and compares the persistent stores with the reference.
func commitAndCheck(w *probe.Worker, st refState, progs [][]probe.Op) refState {
	exp := refBlock(st, progs)
	txs := mkTxs(progs)
	// distinct nonces across the chain so that event-store records do not overwrite each other
	h := w.Ch.L.GetCurrentBlockHeight()
	for i, p := range progs {
		txs[i] = probe.Tx(p, uint32(h)*8+uint32(i)+1, signer)
	}
	res, b, err := w.Commit(txs)
	atomic.AddInt64(&blocksRun, 1)
	atomic.AddInt64(&committedBlocks, 1)
	for i, p := range progs {
		classify(p, exp.txs[i])
	}
	r.Eval()
	caseKey("C", progs, exp)
	size := blockSize(progs)
	if !compare("C", st, progs, txs, res, err, exp) || err != nil {
		return exp.post
	}
	bad := func(key string, what any) {
		report("C/"+key, size, map[string]any{"space": "C", "pre_state": st.String(), "block": showBlock(progs), "problem": what,
			"expected_post_state": exp.post.String(), "height": b.Header.Height})
	}
	// persistent contract storage of the probe
	got := w.Ch.L.VerifC15RawState(append([]byte{byte(scom.ST_STORAGE)}, probe.Addr[:]...))
	want := map[string]string{}
	for k, v := range exp.post {
		want[rawKey(k)] = string(probe.Item(v))
	}
	if len(got) != len(want) {
		bad("post-submit/storage", fmt.Sprintf("stored keys %d, want %d", len(got), len(want)))
	}
	for k, v := range want {
		if got[k] != v {
			bad("post-submit/storage", fmt.Sprintf("key %x = %x want %x", k, got[k], v))
		}
	}
	// event store
	var expAll []common.Uint256
	for i, t := range exp.txs {
		n, err := w.Ch.L.GetEventNotifyByTx(txs[i].Hash())
		if err != nil {
			bad("post-submit/event-store", fmt.Sprintf("tx %d: %v", i, err))
			continue
		}
		wantState := event.CONTRACT_STATE_FAIL
		if t.ok {
			wantState = event.CONTRACT_STATE_SUCCESS
		}
		if n.State != wantState || strings.Join(notesOf(n), "|") != strings.Join(t.notes, "|") {
			bad("post-submit/event-store", map[string]any{"tx": i, "state": n.State, "got": notesOf(n), "want": t.notes})
		}
		expAll = append(expAll, t.hashes...)
	}
	// cross-state store
	hs, cerr := w.Ch.L.VerifC15CrossStates(b.Header.Height)
	if len(expAll) == 0 {
		if cerr == nil && len(hs) != 0 {
			bad("post-submit/cross-states", fmt.Sprintf("%d stored, want none", len(hs)))
		}
	} else if cerr != nil || !multisetEq(hs, expAll) {
		bad("post-submit/cross-states", map[string]any{"err": fmt.Sprint(cerr), "got": hx(hs), "want": hx(expAll)})
	}
	if exp.failed > 0 && exp.failed < len(progs) {
		atomic.AddInt64(&mixedBlocks, 1)
	}
	return exp.post
}

// ---------------------------------------------------------------------------------------------
// Space D: real native calls

func regArgs(c *polyenv.Acct, addr common.Address) []byte {
	p := &node_manager.RegisterPeerParam{PeerPubkey: c.PubHex, Address: addr}
	s := common.NewZeroCopySink(nil)
	p.Serialization(s)
	return s.Bytes()
}

func peerArgs(pub string, addr common.Address) []byte {
	p := &node_manager.PeerParam{PeerPubkey: pub, Address: addr}
	s := common.NewZeroCopySink(nil)
	p.Serialization(s)
	return s.Bytes()
}

type realTx struct {
	name string
	mk   func(nonce uint32) *types.Transaction
}

func jsonNotify(n *event.ExecuteNotify) string {
	type ne struct {
		C string
		S any
	}
	var l []ne
	for _, x := range n.Notify {
		l = append(l, ne{x.ContractAddress.ToHexString(), x.States})
	}
	b, _ := json.Marshal(map[string]any{"state": n.State, "notify": l})
	return string(b)
}

func spaceD(w *probe.Worker) {
	c := polyenv.Key(10)
	nm := utils.NodeManagerContractAddress
	menu := []realTx{
		{"register(c) by c", func(n uint32) *types.Transaction {
			return polyenv.Tx(nm, node_manager.REGISTER_CANDIDATE, regArgs(c, c.Addr), n, polyenv.Single(c))
		}},
		{"register(c) signed by stranger", func(n uint32) *types.Transaction {
			return polyenv.Tx(nm, node_manager.REGISTER_CANDIDATE, regArgs(c, c.Addr), n, polyenv.Single(polyenv.Key(11)))
		}},
		{"unregister(c) by c", func(n uint32) *types.Transaction {
			return polyenv.Tx(nm, node_manager.UNREGISTER_CANDIDATE, peerArgs(c.PubHex, c.Addr), n, polyenv.Single(c))
		}},
		{"approve(c) by validator0", func(n uint32) *types.Transaction {
			return polyenv.Tx(nm, node_manager.APPROVE_CANDIDATE, peerArgs(c.PubHex, vals[0].Addr), n, polyenv.Single(vals[0]))
		}},
		{"approve(c) by outsider", func(n uint32) *types.Transaction {
			return polyenv.Tx(nm, node_manager.APPROVE_CANDIDATE, peerArgs(c.PubHex, c.Addr), n, polyenv.Single(c))
		}},
		{"probe[GetA PutA MerkleVal]", func(n uint32) *types.Transaction {
			return probe.Tx([]probe.Op{{C: probe.Get, K: 'a'}, {C: probe.Put, K: 'a', V: fmt.Sprintf("D%d", n)}, {C: probe.Merkle, V: fmt.Sprintf("D%d", n)}}, n, signer)
		}},
		{"probe[PutA MerkleVal Notify Fail]", func(n uint32) *types.Transaction {
			return probe.Tx([]probe.Op{{C: probe.Put, K: 'a', V: "X"}, {C: probe.Merkle, V: "X"}, {C: probe.Notify, V: "X"}, {C: probe.Fail}}, n, signer)
		}},
	}
	depth := r.QT(3, 4)
	var nBlocks, nFail, nOK int
	var rec func(seq []int)
	rec = func(seq []int) {
		if len(seq) > 0 {
			txs := make([]*types.Transaction, len(seq))
			for i, m := range seq {
				txs[i] = menu[m].mk(uint32(i + 1))
			}
			res, err := w.Exec(txs)
			nBlocks++
			r.Eval()
			names := make([]string, len(seq))
			for i, m := range seq {
				names[i] = menu[m].name
			}
			if err != nil || len(res.Notify) != len(txs) {
				report("D/execute-block-error", len(seq), map[string]any{"block": names, "err": fmt.Sprint(err)})
				return
			}
			var keep []*types.Transaction
			var keepIdx []int
			for i, n := range res.Notify {
				if n.State == event.CONTRACT_STATE_SUCCESS {
					keep = append(keep, txs[i])
					keepIdx = append(keepIdx, i)
					if seq[i] < 5 {
						nOK++
					}
				} else {
					if seq[i] < 5 {
						nFail++
					}
					if len(n.Notify) != 0 {
						report("D/failed-tx/events-kept", len(seq), map[string]any{"block": names, "tx": i})
					}
				}
			}
			if len(keep) < len(txs) {
				res2, err2 := w.Exec(keep)
				r.Eval()
				if err2 != nil || len(res2.Notify) != len(keep) {
					report("D/execute-block-error", len(seq), map[string]any{"block": names, "err": fmt.Sprint(err2)})
					return
				}
				d := map[string]any{"block": names, "failed_removed_block_indices_kept": keepIdx}
				a, b := probe.WriteSet(res), probe.WriteSet(res2)
				if fmt.Sprint(len(a)) != fmt.Sprint(len(b)) {
					d["problem"] = fmt.Sprintf("write set has %d keys with the failed txs, %d without", len(a), len(b))
					report("D/failed-tx-changes-writeset", len(seq), d)
				} else {
					for k, v := range a {
						if bv, ok := b[k]; !ok || bv != v {
							d["problem"] = fmt.Sprintf("key %x differs", k)
							report("D/failed-tx-changes-writeset", len(seq), d)
							break
						}
					}
				}
				if !seqEq(res.CrossHashes, res2.CrossHashes) {
					d["problem"] = map[string]any{"with": hx(res.CrossHashes), "without": hx(res2.CrossHashes)}
					report("D/failed-tx-changes-crosshashes", len(seq), d)
				}
				for j, i := range keepIdx {
					if jsonNotify(res.Notify[i]) != jsonNotify(res2.Notify[j]) {
						d["problem"] = map[string]any{"tx": i, "with": jsonNotify(res.Notify[i]), "without": jsonNotify(res2.Notify[j])}
						report("D/failed-tx-changes-other-tx-outcome", len(seq), d)
					}
				}
			}
		}
		if len(seq) == depth {
			return
		}
		for m := range menu {
			rec(append(append([]int{}, seq...), m))
		}
	}
	rec(nil)
	if nOK > 0 {
		r.Class("real-tx-success")
	}
	if nFail > 0 {
		r.Class("real-tx-fail")
	}
	r.Note("D_real_native_blocks", map[string]int{"blocks": nBlocks, "real_tx_success": nOK, "real_tx_fail": nFail, "max_len": depth})
}

// observations outside the property's scope (recorded, never alarmed)
func observations(w *probe.Worker, pre refState) {
	p := []probe.Op{{C: probe.Notify, V: "before"}, {C: probe.Merkle, V: "before"}, {C: probe.Put, K: 'a', V: "outer"},
		{C: probe.Try, Sub: []probe.Op{{C: probe.Put, K: 'b', V: "callee"}, {C: probe.Notify, V: "callee"}, {C: probe.Merkle, V: "callee"}, {C: probe.Fail}}},
		{C: probe.Get, K: 'b'}, {C: probe.Notify, V: "after"}, {C: probe.Merkle, V: "after"}}
	res, err := w.Exec(mkTxs([][]probe.Op{p}))
	if err == nil && len(res.Notify) == 1 {
		ws := probe.WriteSet(res)
		_, bWritten := ws[rawKey('b')]
		r.Note("observation_swallowed_callee_error", map[string]any{"program": probe.Show(p), "tx_state": res.Notify[0].State,
			"events": notesOf(res.Notify[0]), "cross_hashes": len(res.CrossHashes), "callee_write_kept": bWritten,
			"comment": "out of scope for C15 (the transaction does not fail); Invoke restores neither notifications nor cross hashes nor contexts on callee error, so the caller's earlier events/hashes are replaced by the callee's partial ones; no real contract calls NativeCall"})
	}
	// context-depth overflow: PushContext error is returned as (err, nil) i.e. as success
	var deep []probe.Op
	deep = []probe.Op{{C: probe.Notify, V: "leaf"}}
	for i := 0; i < 1030; i++ {
		deep = []probe.Op{{C: probe.Notify, V: "pre"}, {C: probe.Call, Sub: deep}}
		if len(probe.Encode(deep)) > 60000 {
			break
		}
	}
	res, err = w.Exec(mkTxs([][]probe.Op{deep}))
	if err == nil && len(res.Notify) == 1 {
		r.Note("observation_context_overflow", map[string]any{"nesting": 1030, "tx_state": res.Notify[0].State, "events_kept": len(res.Notify[0].Notify),
			"comment": "NativeService.Invoke returns (err,nil) when PushContext overflows (>1024 nested calls): reported as success; unreachable with the real contracts (none nests)"})
	}
}

// ---------------------------------------------------------------------------------------------
// Space D2: a REAL native call that fails AFTER it has written: the quorum-reaching vote of a vote-router import
// whose target chain is blacklisted (consensus_vote.MakeDepositProposal has already stored the vote record and
// PutDoneTx when ImportExTransfer rejects the blacklisted target). Seed state is really committed; blocks over the
// menu are dry-run; oracle = metamorphic (deleting the failed transactions changes nothing) + the later successful
// retry must produce exactly what it produces without the earlier failed attempt.
func spaceD2(w *probe.Worker) {
	seedFailed := false
	commit := func(tx *types.Transaction, what string) {
		polyenv.GlobalHeight = w.Ch.L.GetCurrentBlockHeight()
		res, _, err := w.Commit([]*types.Transaction{tx})
		if err != nil || len(res.Notify) != 1 || res.Notify[0].State != event.CONTRACT_STATE_SUCCESS {
			vmu.Lock()
			nv := len(viols)
			vmu.Unlock()
			if nv == 0 {
				r.HarnessError("D2 seed %s failed: %v", what, err)
			}
			seedFailed = true
		}
	}
	q := ccm.Quorum(len(vals))
	owner := polyenv.Key(900)
	for _, sc := range []ccm.SC{{ID: 11, Router: utils.VOTE_ROUTER, Wait: 1, Name: "src", CCMC: []byte{1}}, {ID: 12, Router: utils.VOTE_ROUTER, Wait: 1, Name: "dst", CCMC: []byte{2}}} {
		commit(ccm.RegisterTx(sc, owner, uint32(sc.ID)), "registerSideChain")
		for i := 0; i < q; i++ {
			commit(ccm.ApproveTx(sc.ID, vals[i], uint32(sc.ID)), "approveRegisterSideChain")
		}
	}
	msg := ccm.MsgBytes(ccm.Msg([]byte{0xaa, 1}, []byte{0xcc, 1}, []byte{0xf0}, 12, make([]byte, 20), "unlock", []byte{1, 2, 3}))
	msg2 := ccm.MsgBytes(ccm.Msg([]byte{0xaa, 2}, []byte{0xcc, 2}, []byte{0xf0}, 12, make([]byte, 20), "unlock", []byte{4}))
	for i := 0; i < q-1; i++ {
		commit(ccm.VoteImport(11, 7, msg, vals[i], uint32(100+i)), "vote")
	}
	commit(ccm.BlackTx(12, false, 200, polyenv.Multi(vals)), "blackChain(12)")
	if seedFailed {
		r.Class("real-tx-fail-after-writes")
		r.Note("D2_skipped", "seed could not be committed on code that already violates C15")
		return
	}
	polyenv.GlobalHeight = w.Ch.L.GetCurrentBlockHeight()
	last := vals[q-1]
	menu := []realTx{
		{"quorum vote, target chain 12 blacklisted (fails after voteInfo+doneTx were written)", func(n uint32) *types.Transaction { return ccm.VoteImport(11, 7, msg, last, 300+n) }},
		{"whiteChain(12) by operator", func(n uint32) *types.Transaction { return ccm.BlackTx(12, true, 310+n, polyenv.Multi(vals)) }},
		{"blackChain(12) by operator", func(n uint32) *types.Transaction { return ccm.BlackTx(12, false, 320+n, polyenv.Multi(vals)) }},
		{"first vote on another message", func(n uint32) *types.Transaction { return ccm.VoteImport(11, 8, msg2, last, 330+n) }},
		{"probe[GetA PutA MerkleVal]", func(n uint32) *types.Transaction {
			return probe.Tx([]probe.Op{{C: probe.Get, K: 'a'}, {C: probe.Put, K: 'a', V: fmt.Sprintf("E%d", n)}, {C: probe.Merkle, V: fmt.Sprintf("E%d", n)}}, n, signer)
		}},
	}
	// vacuity: alone, tx 0 fails; after whiteChain it succeeds and emits a cross-chain record
	r0, e0 := w.Exec([]*types.Transaction{menu[0].mk(1)})
	r1, e1 := w.Exec([]*types.Transaction{menu[1].mk(1), menu[0].mk(2)})
	if e0 != nil || e1 != nil || r0.Notify[0].State != event.CONTRACT_STATE_FAIL || r1.Notify[1].State != event.CONTRACT_STATE_SUCCESS || len(r1.CrossHashes) != 1 {
		vmu.Lock()
		nv := len(viols)
		vmu.Unlock()
		if nv == 0 {
			r.HarnessError("D2 scenario not as designed: alone=%v afterWhite=%v hashes=%d", r0.Notify[0].State, r1.Notify[1].State, len(r1.CrossHashes))
		}
		// the code under test already violated the property in the earlier spaces (e.g. a mutant): the real-contract
		// scenario cannot be set up on top of it; do not mask those violations
		r.Class("real-tx-fail-after-writes")
		r.Note("D2_skipped", "scenario could not be established on code that already violates C15")
		return
	}
	// the failing attempt really is past its writes: the same call on a world whose target is not blacklisted
	// writes doneTx/voteInfo/request (3 keys) — and with the blacklist the only difference is the final check
	if len(probe.WriteSet(r1)) < 4 {
		r.HarnessError("D2: successful import wrote only %d keys", len(probe.WriteSet(r1)))
	}
	r.Class("real-tx-fail-after-writes")
	depth := 3
	var nBlocks, nFailAfterWrite int
	var rec func(seq []int)
	rec = func(seq []int) {
		if len(seq) > 0 {
			txs := make([]*types.Transaction, len(seq))
			names := make([]string, len(seq))
			for i, m := range seq {
				txs[i] = menu[m].mk(uint32(i + 1))
				names[i] = menu[m].name
			}
			res, err := w.Exec(txs)
			nBlocks++
			r.Eval()
			if err != nil || len(res.Notify) != len(txs) {
				report("D2/execute-block-error", len(seq), map[string]any{"block": names, "err": fmt.Sprint(err)})
				return
			}
			var keep []*types.Transaction
			var keepIdx []int
			for i, n := range res.Notify {
				if n.State == event.CONTRACT_STATE_SUCCESS {
					keep = append(keep, txs[i])
					keepIdx = append(keepIdx, i)
				} else {
					if seq[i] == 0 {
						nFailAfterWrite++
					}
					if len(n.Notify) != 0 {
						report("D2/failed-tx/events-kept", len(seq), map[string]any{"block": names, "tx": i})
					}
				}
			}
			if len(keep) < len(txs) {
				res2, err2 := w.Exec(keep)
				r.Eval()
				if err2 != nil || len(res2.Notify) != len(keep) {
					report("D2/execute-block-error", len(seq), map[string]any{"block": names, "err": fmt.Sprint(err2)})
					return
				}
				d := map[string]any{"block": names, "indices_of_successful_txs": keepIdx, "seed": "chains 11,12 (vote router) registered; q-1 votes cast; chain 12 blacklisted"}
				a, b := probe.WriteSet(res), probe.WriteSet(res2)
				same := len(a) == len(b)
				for k, v := range a {
					if bv, ok := b[k]; !ok || bv != v {
						same = false
					}
				}
				if !same {
					d["problem"] = fmt.Sprintf("write set differs: %d keys with the failed txs in the block, %d without", len(a), len(b))
					report("D2/failed-real-tx-changes-writeset", len(seq), d)
				}
				if !seqEq(res.CrossHashes, res2.CrossHashes) {
					d["problem"] = map[string]any{"with": hx(res.CrossHashes), "without": hx(res2.CrossHashes)}
					report("D2/failed-real-tx-changes-crosshashes", len(seq), d)
				}
				for j, i := range keepIdx {
					if jsonNotify(res.Notify[i]) != jsonNotify(res2.Notify[j]) {
						d["problem"] = map[string]any{"tx": i, "with": jsonNotify(res.Notify[i]), "without": jsonNotify(res2.Notify[j])}
						report("D2/failed-real-tx-changes-other-tx-outcome", len(seq), d)
					}
				}
			}
		}
		if len(seq) == depth {
			return
		}
		for m := range menu {
			rec(append(append([]int{}, seq...), m))
		}
	}
	rec(nil)
	r.Note("D2_real_fail_after_write_blocks", map[string]int{"blocks": nBlocks, "failing_quorum_votes_executed": nFailAfterWrite, "max_len": depth})
}
