// C33 — approved governance requests are consumed: after an approval round applied a pending request, no
// later approval round can apply it again without a fresh request.
//
// One BFS per request kind (side-chain register / update / quit, relayer register / remove, validator
// candidacy, state-validator register / remove) over the events
//
//	request            file a fresh request (real tx by the requester)
//	approve|id|Vi      one approval transaction by validator Vi for request id
//	inverse            macro of real txs undoing the applied request through its own request+approval flow
//	                   (quit after register, re-register after quit, remove after add, ...), so that a
//	                   re-application of the consumed request is visible in the registry
//
// to depth 2*quorum+3 (request, round, inverse, second round, one more).
// Reference monitor: pending[id] (set by an accepted request, cleared by the effect) and the approvers since
// the last effect.
package main

import (
	"encoding/json"
	"fmt"
	"sort"
	"strconv"
	"strings"
	"sync"

	_ "github.com/polynetwork/poly/native/service"
	"github.com/polynetwork/poly/native/service/governance/neo3_state_manager"
	"github.com/polynetwork/poly/native/service/governance/node_manager"
	"github.com/polynetwork/poly/native/service/governance/relayer_manager"
	"github.com/polynetwork/poly/native/service/governance/side_chain_manager"
	"verif.local/engine/ev"
	"verif.local/engine/lib/gov"
	"verif.local/engine/mc"
	"verif.local/engine/polyenv"
)

const h0 = 10

type kind struct {
	name    string
	ids     []uint64 // request ids the approval events target
	setup   func(w gov.Execer)
	request func(w gov.Execer, h uint32) (polyenv.Result, uint64)
	approve func(w gov.Execer, id uint64, who string, h uint32) polyenv.Result
	notify  string
	signKey func(id uint64) string
	invOK   func(m map[string]string) bool
	inverse func(w gov.Execer, h uint32)
	invView bool // the inverse changes the governance view (later txs run at a later height)
	// optional
	approvers []string                     // default V1..VN (must all be consensus validators throughout)
	views0    int                          // governance view changes performed by the setup
	inverse2  func(w gov.Execer, h uint32) // a second way to undo (black-listing instead of quitting)
}

type model struct {
	Pending map[uint64]bool
	Since   map[uint64][]string // approvers since the last effect of id
	Applied map[uint64]int
	Views   int
}

func (m model) clone() model {
	n := model{Pending: map[uint64]bool{}, Since: map[uint64][]string{}, Applied: map[uint64]int{}, Views: m.Views}
	for k, v := range m.Pending {
		n.Pending[k] = v
	}
	for k, v := range m.Since {
		n.Since[k] = append([]string{}, v...)
	}
	for k, v := range m.Applied {
		n.Applied[k] = v
	}
	return n
}
func (m model) key() string { b, _ := json.Marshal(m); return string(b) }

func add(l []string, a string) []string {
	for _, x := range l {
		if x == a {
			return l
		}
	}
	l = append(append([]string{}, l...), a)
	sort.Strings(l)
	return l
}

func must(r polyenv.Result, what string) {
	if !r.OK {
		panic(fmt.Sprintf("harness step %q failed: %v", what, r.Err))
	}
}

func present(m map[string]string, k string) bool { _, ok := m[k]; return ok }
func has(l []string, x string) bool {
	for _, y := range l {
		if y == x {
			return true
		}
	}
	return false
}

// kinds returns the 8 request kinds plus, where the contract accepts such a request, a variant whose request content
// is ALREADY IN FORCE when it is filed (duplicate registration / removal of something absent / update with identical
// content): its approval round is a no-op on the registry, yet the request must be consumed by it.
func kinds(e *gov.Env) []*kind {
	base := kindsBase(e, false)
	for _, k := range kindsBase(e, true) {
		switch k.name {
		case "updateSideChain", "registerRelayer", "removeRelayer", "registerStateValidator", "removeStateValidator":
			k.name += "+contentAlreadyInForce"
			base = append(base, k)
		}
	}
	{
		// subject histories of a candidacy: a RETURNING peer (was a member before, still owns its peer index) and a
		// GENESIS peer that quit and re-applies (X's node took its place so that the pool keeps 4 validators)
		base = append(base, candKind(e, "registerCandidate+returningPeer", "c1", true), candKind(e, "registerCandidate+genesisPeerReapplies", e.V(e.N), true))
	}
	return base
}

// candKind: validator candidacy of peer `subject` (owner = its own address). leftBefore: the setup lets the subject be a
// pool member and leave (quitNode + commitDpos) before the explored history starts.
func candKind(e *gov.Env, name, subject string, leftBefore bool) *kind {
	pk := e.A(subject).PubHex
	genesis := subject != "c1"
	cons := func() []*polyenv.Acct { // consensus validators (= commitDpos operator) after the setup
		if genesis {
			return append(append([]*polyenv.Acct{}, e.Vals[:e.N-1]...), e.A("X"))
		}
		return e.Vals
	}
	var approvers []string
	for i := 1; i <= e.N; i++ {
		if e.V(i) != subject {
			approvers = append(approvers, e.V(i))
		}
	}
	if genesis {
		approvers = append(approvers, "X")
	}
	admit := func(w gov.Execer, peer string, by []string, h uint32) {
		must(e.RegisterCandidate(w, peer, peer, h), "registerCandidate "+peer)
		inPool := func() bool { _, pool := gov.Pool(w.Dump().Map()); _, in := pool[e.A(peer).PubHex]; return in }
		for _, v := range by {
			if inPool() {
				return
			}
			must(e.ApproveCandidate(w, peer, v, h), "approveCandidate "+peer+" by "+v)
		}
		if !inPool() {
			panic("harness: " + peer + " not admitted by every validator")
		}
	}
	leave := func(w gov.Execer, ops []*polyenv.Acct, h uint32) {
		must(e.QuitNode(w, subject, subject, h), "quitNode")
		must(gov.CallOperator(w, gov.NM, node_manager.COMMIT_DPOS, nil, ops, h), "commitDpos")
		if _, pool := gov.Pool(w.Dump().Map()); func() bool { _, in := pool[pk]; return in }() {
			panic("harness: subject still in the pool after quitNode + commitDpos")
		}
	}
	all := func() []string {
		var o []string
		for i := 1; i <= e.N; i++ {
			o = append(o, e.V(i))
		}
		return o
	}
	k := &kind{name: name, ids: []uint64{0}, approvers: approvers, invView: true,
		setup: func(w gov.Execer) {
			if !leftBefore {
				return
			}
			if genesis {
				admit(w, "X", all(), h0) // keeps the pool above the minimum when the genesis peer quits; becomes a validator
			} else {
				admit(w, subject, all(), h0)
			}
			if genesis { // a quitting validator no longer belongs to the operator set
				leave(w, e.Vals[:e.N-1], h0)
			} else {
				leave(w, e.Vals, h0)
			}
		},
		request: func(w gov.Execer, h uint32) (polyenv.Result, uint64) {
			return e.RegisterCandidate(w, subject, subject, h), 0
		},
		approve: func(w gov.Execer, id uint64, who string, h uint32) polyenv.Result {
			return e.ApproveCandidate(w, subject, who, h)
		},
		notify:  "approveCandidate",
		signKey: func(id uint64) string { return gov.SignKey(node_manager.APPROVE_CANDIDATE, []byte(pk)) },
		invOK:   func(m map[string]string) bool { _, pool := gov.Pool(m); st, in := pool[pk]; return in && st <= 1 },
		inverse: func(w gov.Execer, h uint32) { leave(w, cons(), h) },
		inverse2: func(w gov.Execer, h uint32) { // black-list the subject (validators approve until listed), then commitDpos
			for _, v := range approvers {
				if _, pool := gov.Pool(w.Dump().Map()); pool[pk] == 3 { // BlackStatus in the pool (the black LIST entry may predate this membership)
					break
				}
				must(gov.Call(w, gov.NM, node_manager.BLACK_NODE, gov.PeerList([]string{pk}, e.A(v).Addr), e.A(v), h), "blackNode by "+v)
			}
			must(gov.CallOperator(w, gov.NM, node_manager.COMMIT_DPOS, nil, cons(), h), "commitDpos")
			if _, pool := gov.Pool(w.Dump().Map()); func() bool { _, in := pool[pk]; return in }() {
				panic("harness: subject still in the pool after blackNode + commitDpos")
			}
		}}
	if leftBefore {
		k.views0 = 1
	}
	return k
}

func kindsBase(e *gov.Env, inForce bool) []*kind {
	// round (harness macro): validators approve one after the other until done() reports the effect; the macro
	// does not presuppose the quorum rule.
	round := func(w gov.Execer, f func(who string) polyenv.Result, done func(m map[string]string) bool, what string) {
		for i := 1; i <= e.N && !done(w.Dump().Map()); i++ {
			must(f(e.V(i)), what+" by "+e.V(i))
		}
		if !done(w.Dump().Map()) {
			panic("harness: " + what + ": no effect after every validator approved")
		}
	}
	chainIn := func(m map[string]string) bool { return present(m, gov.KeySideChain(1)) }
	chainOut := func(m map[string]string) bool { return !present(m, gov.KeySideChain(1)) }
	relIn := func(m map[string]string) bool { return present(m, gov.KeyRelayer(e.A("ra").Addr)) }
	relOut := func(m map[string]string) bool { return !relIn(m) }
	svIn := func(m map[string]string) bool { return has(gov.SVs(m), "sv1") }
	svOut := func(m map[string]string) bool { return !svIn(m) }
	regChain := func(w gov.Execer, h uint32) {
		must(e.RegisterSideChain(w, "o1", "o1", 1, "reg", h), "registerSideChain")
		round(w, func(v string) polyenv.Result {
			return e.ApproveSC(w, side_chain_manager.APPROVE_REGISTER_SIDE_CHAIN, 1, v, h)
		}, chainIn, "approveRegisterSideChain")
	}
	quitChain := func(w gov.Execer, h uint32) {
		must(e.QuitSideChain(w, "o1", "o1", 1, h), "quitSideChain")
		round(w, func(v string) polyenv.Result {
			return e.ApproveSC(w, side_chain_manager.APPROVE_QUIT_SIDE_CHAIN, 1, v, h)
		}, chainOut, "approveQuitSideChain")
	}
	addRelayer := func(w gov.Execer, h uint32) {
		id := gov.Counter(w.Dump().Map(), gov.KeyRelayerApplyID())
		must(e.RegisterRelayer(w, []string{"ra"}, "X", h), "registerRelayer")
		round(w, func(v string) polyenv.Result {
			return e.ApproveRelayer(w, relayer_manager.APPROVE_REGISTER_RELAYER, id, v, h)
		}, relIn, "approveRegisterRelayer")
	}
	delRelayer := func(w gov.Execer, h uint32) {
		id := gov.Counter(w.Dump().Map(), gov.KeyRelayerRemoveID())
		must(e.RemoveRelayer(w, []string{"ra"}, "X", h), "removeRelayer")
		round(w, func(v string) polyenv.Result {
			return e.ApproveRelayer(w, relayer_manager.APPROVE_REMOVE_RELAYER, id, v, h)
		}, relOut, "approveRemoveRelayer")
	}
	addSV := func(w gov.Execer, h uint32) {
		id := gov.Counter(w.Dump().Map(), gov.KeySVApplyID())
		must(e.RegisterSV(w, []string{"sv1"}, "X", h), "registerStateValidator")
		round(w, func(v string) polyenv.Result {
			return e.ApproveSV(w, neo3_state_manager.APPROVE_REGISTER_STATE_VALIDATOR, id, v, h)
		}, svIn, "approveRegisterStateValidator")
	}
	delSV := func(w gov.Execer, h uint32) {
		id := gov.Counter(w.Dump().Map(), gov.KeySVRemoveID())
		must(e.RemoveSV(w, []string{"sv1"}, "X", h), "removeStateValidator")
		round(w, func(v string) polyenv.Result {
			return e.ApproveSV(w, neo3_state_manager.APPROVE_REMOVE_STATE_VALIDATOR, id, v, h)
		}, svOut, "approveRemoveStateValidator")
	}
	u := gov.U64
	updTag := "updX"
	nop := func(w gov.Execer) {}
	setupRegRel, setupRemRel := nop, func(w gov.Execer) { addRelayer(w, h0) }
	setupRegSV, setupRemSV := nop, func(w gov.Execer) { addSV(w, h0) }
	idsReg, idsRem := []uint64{0, 1}, []uint64{0, 1}
	if inForce { // the state the request asks for already holds when it is filed
		updTag = "reg"
		setupRegRel, setupRemRel = setupRemRel, setupRegRel
		setupRegSV, setupRemSV = setupRemSV, setupRegSV
		idsReg = []uint64{1, 2} // apply id 0 was used by the setup
	}
	return []*kind{
		{name: "registerSideChain", ids: []uint64{1}, setup: func(w gov.Execer) {},
			request: func(w gov.Execer, h uint32) (polyenv.Result, uint64) {
				return e.RegisterSideChain(w, "o1", "o1", 1, "reg", h), 1
			},
			approve: func(w gov.Execer, id uint64, who string, h uint32) polyenv.Result {
				return e.ApproveSC(w, side_chain_manager.APPROVE_REGISTER_SIDE_CHAIN, id, who, h)
			}, notify: "ApproveRegisterSideChain",
			signKey: func(id uint64) string { return gov.SignKey(side_chain_manager.APPROVE_REGISTER_SIDE_CHAIN, u(id)) },
			invOK:   func(m map[string]string) bool { return present(m, gov.KeySideChain(1)) }, inverse: quitChain},
		{name: "updateSideChain", ids: []uint64{1}, setup: func(w gov.Execer) { regChain(w, h0) },
			request: func(w gov.Execer, h uint32) (polyenv.Result, uint64) {
				return e.UpdateSideChain(w, "o1", "o1", 1, updTag, h), 1
			},
			approve: func(w gov.Execer, id uint64, who string, h uint32) polyenv.Result {
				return e.ApproveSC(w, side_chain_manager.APPROVE_UPDATE_SIDE_CHAIN, id, who, h)
			}, notify: "ApproveUpdateSideChain",
			signKey: func(id uint64) string { return gov.SignKey(side_chain_manager.APPROVE_UPDATE_SIDE_CHAIN, u(id)) },
			invOK:   func(m map[string]string) bool { return present(m, gov.KeySideChain(1)) },
			inverse: func(w gov.Execer, h uint32) { quitChain(w, h); regChain(w, h) }},
		{name: "quitSideChain", ids: []uint64{1}, setup: func(w gov.Execer) { regChain(w, h0) },
			request: func(w gov.Execer, h uint32) (polyenv.Result, uint64) { return e.QuitSideChain(w, "o1", "o1", 1, h), 1 },
			approve: func(w gov.Execer, id uint64, who string, h uint32) polyenv.Result {
				return e.ApproveSC(w, side_chain_manager.APPROVE_QUIT_SIDE_CHAIN, id, who, h)
			}, notify: "ApproveQuitSideChain",
			signKey: func(id uint64) string { return gov.SignKey(side_chain_manager.QUIT_SIDE_CHAIN, u(id)) },
			invOK: func(m map[string]string) bool {
				return !present(m, gov.KeySideChain(1)) && !present(m, gov.KeySideChainApply(1))
			}, inverse: regChain},
		{name: "registerRelayer", ids: idsReg, setup: setupRegRel,
			request: func(w gov.Execer, h uint32) (polyenv.Result, uint64) {
				id := gov.Counter(w.Dump().Map(), gov.KeyRelayerApplyID())
				return e.RegisterRelayer(w, []string{"ra"}, "X", h), id
			},
			approve: func(w gov.Execer, id uint64, who string, h uint32) polyenv.Result {
				return e.ApproveRelayer(w, relayer_manager.APPROVE_REGISTER_RELAYER, id, who, h)
			}, notify: "ApproveRegisterRelayer",
			signKey: func(id uint64) string { return gov.SignKey(relayer_manager.APPROVE_REGISTER_RELAYER, u(id)) },
			invOK:   func(m map[string]string) bool { return present(m, gov.KeyRelayer(e.A("ra").Addr)) }, inverse: delRelayer},
		{name: "removeRelayer", ids: idsRem, setup: setupRemRel,
			request: func(w gov.Execer, h uint32) (polyenv.Result, uint64) {
				id := gov.Counter(w.Dump().Map(), gov.KeyRelayerRemoveID())
				return e.RemoveRelayer(w, []string{"ra"}, "X", h), id
			},
			approve: func(w gov.Execer, id uint64, who string, h uint32) polyenv.Result {
				return e.ApproveRelayer(w, relayer_manager.APPROVE_REMOVE_RELAYER, id, who, h)
			}, notify: "ApproveRemoveRelayer",
			signKey: func(id uint64) string { return gov.SignKey(relayer_manager.APPROVE_REMOVE_RELAYER, u(id)) },
			invOK:   func(m map[string]string) bool { return !present(m, gov.KeyRelayer(e.A("ra").Addr)) }, inverse: addRelayer},
		candKind(e, "registerCandidate", "c1", false),
		{name: "registerStateValidator", ids: idsReg, setup: setupRegSV,
			request: func(w gov.Execer, h uint32) (polyenv.Result, uint64) {
				id := gov.Counter(w.Dump().Map(), gov.KeySVApplyID())
				return e.RegisterSV(w, []string{"sv1"}, "X", h), id
			},
			approve: func(w gov.Execer, id uint64, who string, h uint32) polyenv.Result {
				return e.ApproveSV(w, neo3_state_manager.APPROVE_REGISTER_STATE_VALIDATOR, id, who, h)
			}, notify: "ApproveRegisterStateValidator",
			signKey: func(id uint64) string { return gov.SignKey(neo3_state_manager.APPROVE_REGISTER_STATE_VALIDATOR, u(id)) },
			invOK:   func(m map[string]string) bool { return has(gov.SVs(m), "sv1") }, inverse: delSV},
		{name: "removeStateValidator", ids: idsRem, setup: setupRemSV,
			request: func(w gov.Execer, h uint32) (polyenv.Result, uint64) {
				id := gov.Counter(w.Dump().Map(), gov.KeySVRemoveID())
				return e.RemoveSV(w, []string{"sv1"}, "X", h), id
			},
			approve: func(w gov.Execer, id uint64, who string, h uint32) polyenv.Result {
				return e.ApproveSV(w, neo3_state_manager.APPROVE_REMOVE_STATE_VALIDATOR, id, who, h)
			}, notify: "ApproveRemoveStateValidator",
			signKey: func(id uint64) string { return gov.SignKey(neo3_state_manager.APPROVE_REMOVE_STATE_VALIDATOR, u(id)) },
			invOK:   func(m map[string]string) bool { return !has(gov.SVs(m), "sv1") }, inverse: addSV},
	}
}

type verdict struct {
	key         string
	stateChange bool
	detail      map[string]any
}

type state struct {
	D    polyenv.Dump
	M    model
	last []verdict
}

type found struct {
	v    verdict
	path []string
}

type explorer struct {
	r    *ev.Run
	e    *gov.Env
	k    *kind
	mu   sync.Mutex
	best map[string]found
	cnt  map[string]int
}

func (x *explorer) count(c string) {
	x.r.Class(c)
	x.r.Case(fmt.Sprintf("N%d/%s/%s", x.e.N, x.k.name, c))
	x.mu.Lock()
	x.cnt[c]++
	x.mu.Unlock()
}

func (x *explorer) events(s state, depth int) []string {
	out := []string{"request", "inverse"}
	if x.k.inverse2 != nil {
		out = append(out, "inverse2")
	}
	ap := x.k.approvers
	if ap == nil {
		for i := 1; i <= x.e.N; i++ {
			ap = append(ap, x.e.V(i))
		}
	}
	for _, id := range x.k.ids {
		for _, a := range ap {
			out = append(out, fmt.Sprintf("approve|%d|%s", id, a))
		}
	}
	return out
}

func keyNames(ks []string) []string {
	o := make([]string, len(ks))
	for i, k := range ks {
		o[i] = gov.KeyName(k)
	}
	return o
}

func (x *explorer) step(s state, evn string) (state, bool) {
	k := x.k
	nm := s.M.clone()
	h := uint32(h0 + 10*s.M.Views)
	w := gov.NewWorldFrom(s.D)
	x.r.Eval()
	switch {
	case evn == "request":
		res, id := k.request(w, h)
		if res.OK {
			if !nm.Pending[id] {
				delete(nm.Since, id) // a new round starts with the fresh request
			}
			nm.Pending[id] = true
			x.count("request-accepted")
			if nm.Applied[id] > 0 {
				x.count("fresh-request-for-an-id-applied-before")
			}
		} else {
			x.count("request-rejected")
		}
		return state{D: w.Dump(), M: nm}, true
	case evn == "inverse" || evn == "inverse2":
		if !k.invOK(w.Map()) {
			return s, false
		}
		if evn == "inverse" {
			k.inverse(w, h)
		} else {
			k.inverse2(w, h)
		}
		if k.invView {
			nm.Views++
		}
		x.count("inverse-applied")
		return state{D: w.Dump(), M: nm}, true
	}
	parts := strings.Split(evn, "|")
	id, _ := strconv.ParseUint(parts[1], 10, 64)
	who := parts[2]
	res := k.approve(w, id, who, h)
	d2 := w.Dump()
	changed := gov.Changed(s.D, d2)
	if !res.OK {
		if len(changed) > 0 {
			x.r.HarnessError("failed transaction changed the state (%s/%s)", k.name, evn)
		}
		switch {
		case res.Panic != nil:
			x.count("approval-panic")
		case nm.Applied[id] > 0 && !nm.Pending[id]:
			x.count("approval-of-consumed-request-rejected")
		default:
			x.count("approval-rejected")
		}
		return state{D: d2, M: nm}, true
	}
	nm.Since[id] = add(nm.Since[id], who)
	var nonSign []string
	for _, c := range changed {
		if !gov.IsSignKey(c) {
			nonSign = append(nonSign, c)
		}
	}
	effect := len(nonSign) > 0 || gov.Notified(res, k.notify)
	var vs []verdict
	info := map[string]any{"kind": k.name, "N": x.e.N, "quorum": x.e.Q(), "event": evn, "request_id": id,
		"pending_in_reference": nm.Pending[id], "times_applied_before": nm.Applied[id],
		"approvers_since_last_effect": nm.Since[id], "registry_keys_changed": keyNames(nonSign), "approve_event_emitted": gov.Notified(res, k.notify)}
	switch {
	case effect && !nm.Pending[id]:
		vs = append(vs, verdict{"reapplied-without-fresh-request/" + k.name, len(nonSign) > 0, info})
		x.count("VIOLATING-effect-without-pending-request")
	case effect && len(nm.Since[id]) < x.e.Q():
		vs = append(vs, verdict{"applied-below-quorum-of-its-own-round/" + k.name, len(nonSign) > 0, info})
	case effect:
		x.count("effect-on-pending-request")
		if nm.Applied[id] > 0 {
			x.count("fresh-request-applied-by-a-full-new-round")
		}
	case !nm.Pending[id] && nm.Applied[id] > 0:
		x.count("approval-of-consumed-request-accepted-without-effect")
	default:
		x.count("approval-recorded")
	}
	// consumed = applied by the code (visible effect) OR, by the reference quorum rule, a full round of approvals was
	// accepted for a pending request (its application may be a no-op on the registry: content already in force)
	silent := !effect && nm.Pending[id] && len(nm.Since[id]) >= x.e.Q()
	if silent {
		x.count("round-completed-without-visible-effect")
	}
	if effect || silent {
		nm.Pending[id] = false
		nm.Applied[id]++
		delete(nm.Since, id)
	}
	return state{D: d2, M: nm, last: vs}, true
}

func (x *explorer) initial() state {
	gw := gov.NewWorld()
	gw.Genesis(x.e.Vals)
	rec := &gov.Recorder{W: gw}
	x.k.setup(rec)
	if diff := gov.SelfCheck(x.e.Vals, rec.Ops); diff != "" {
		x.r.HarnessError("map-backed world diverges from the leveldb-backed polyenv world: %s", diff)
	}
	return state{D: rec.Dump(), M: model{Pending: map[uint64]bool{}, Since: map[uint64][]string{}, Applied: map[uint64]int{}, Views: x.k.views0}}
}

func (x *explorer) run(depth int) mc.Stats {
	init := x.initial()
	return mc.BFS(mc.Config[state]{
		Init: []state{init}, Events: x.events, Step: x.step,
		Key: func(s state) string { return s.D.String() + s.M.key() },
		Check: func(prev state, evn string, next state, path []string) {
			for _, v := range next.last {
				x.mu.Lock()
				b, ok := x.best[v.key]
				if !ok || (v.stateChange && !b.v.stateChange) || (v.stateChange == b.v.stateChange && len(path) < len(b.path)) {
					x.best[v.key] = found{v, path}
				}
				x.mu.Unlock()
			}
		},
		MaxDepth: depth, Workers: 16, Stop: x.r.Expired,
	})
}

func main() {
	r := ev.Start("C33", "model_checking")
	if r.ReplayPath == "" {
		r.Require("effect-on-pending-request", "inverse-applied", "approval-of-consumed-request-rejected", "fresh-request-applied-by-a-full-new-round")
	}
	polyenv.InstallHeightLedger()
	ns := []int{4}
	if r.Thorough() {
		ns = []int{4, 5, 6}
	}
	if r.ReplayPath != "" { // re-execute one recorded operation list
		var d struct {
			Kind string   `json:"kind"`
			N    int      `json:"N"`
			Ops  []string `json:"ops_after_setup"`
		}
		if err := r.LoadReplay(&d); err != nil {
			r.HarnessError("replay: %v", err)
		}
		e := gov.NewEnv(d.N)
		polyenv.Setup(0, e.Vals)
		for _, k := range kinds(e) {
			if k.name != d.Kind {
				continue
			}
			x := &explorer{r: r, e: e, k: k, best: map[string]found{}, cnt: map[string]int{}}
			s := x.initial()
			for i, op := range d.Ops {
				n, ok := x.step(s, op)
				if !ok {
					r.HarnessError("replay: op %d (%s) not applicable", i, op)
				}
				for _, v := range n.last {
					v.detail["ops_after_setup"] = d.Ops[:i+1]
					v.detail["registry_changed"] = v.stateChange
					r.Violation(v.key, v.detail)
				}
				s = n
			}
		}
		r.Finish(map[string]any{"rule": "replay of one recorded operation list", "states": len(d.Ops) + 1, "transitions": len(d.Ops),
			"traces_validated_against_impl": len(d.Ops), "vacuity_guard": "off (replay)"})
	}
	var tot mc.Stats
	per := map[string]any{}
	kindsSeen := map[string]bool{}
	for _, n := range ns {
		e := gov.NewEnv(n)
		polyenv.Setup(0, e.Vals)
		for _, k := range kinds(e) {
			if r.Expired() {
				r.Capped(fmt.Sprintf("N=%d kind=%s not run", n, k.name))
				continue
			}
			x := &explorer{r: r, e: e, k: k, best: map[string]found{}, cnt: map[string]int{}}
			depth := 2*e.Q() + 3
			st := x.run(depth)
			if st.Truncated {
				r.Capped(fmt.Sprintf("N=%d kind=%s truncated by deadline", n, k.name))
			} else {
				if (x.cnt["effect-on-pending-request"] == 0 || x.cnt["inverse-applied"] == 0) && len(x.best) == 0 { // (a violating run may never reach the canonical cycle)
					r.HarnessError("N=%d kind=%s: canonical request/approve/inverse cycle never completed: %v", n, k.name, x.cnt)
				}
				if x.cnt["approval-of-consumed-request-rejected"]+x.cnt["approval-of-consumed-request-accepted-without-effect"]+
					x.cnt["VIOLATING-effect-without-pending-request"]+x.cnt["approval-panic"] == 0 {
					r.HarnessError("N=%d kind=%s: no second approval round was attempted", n, k.name)
				}
			}
			for key, f := range x.best {
				f.v.detail["ops_after_setup"] = f.path
				f.v.detail["registry_changed"] = f.v.stateChange
				r.Violation(key, f.v.detail)
			}
			kindsSeen[k.name] = true
			r.Case(fmt.Sprintf("N%d/%s", n, k.name))
			tot.States += st.States
			tot.Transitions += st.Transitions
			if st.MaxDepth > tot.MaxDepth {
				tot.MaxDepth = st.MaxDepth
			}
			per[fmt.Sprintf("N%d/%s", n, k.name)] = map[string]any{"states": st.States, "transitions": st.Transitions, "depth": st.MaxDepth, "classes": x.cnt}
			if len(per) <= 2 {
				r.Sample(map[string]any{"N": n, "kind": k.name, "events": x.events(state{}, 0), "depth": depth, "states": st.States})
			}
		}
	}
	r.Assume("private net (network id 0)", "approver address = address derived from the transaction's signature entry",
		"black/white-listing have no stored request object and are outside this property's list of request kinds")
	r.Finish(map[string]any{
		"rule": "an approval transaction has an effect (registry change or Approve* event) only while the reference monitor holds a pending request " +
			"for that id (filed by an accepted request tx and not yet applied), and only with a full quorum of approvals given since the last effect",
		"validator_set_sizes": ns, "request_kinds": len(kindsSeen), "states": tot.States, "transitions": tot.Transitions,
		"traces_validated_against_impl": tot.Transitions, "max_depth": tot.MaxDepth, "per_kind": per,
	})
}
