// Package ccm holds the small helpers shared by the cross-chain-manager property drivers (C20, C21, C22, C25):
// side-chain seeding through the real governance path, import / blacklist transaction builders, message
// construction and the raw storage keys the oracles look at. No logic of the code under test is re-used for
// the oracles: keys are re-derived here from the documented layout (contract ++ prefix ++ LE64(chain) ++ id).
package ccm

import (
	"crypto/sha256"
	"encoding/binary"
	"fmt"

	"github.com/polynetwork/poly/common"
	cstates "github.com/polynetwork/poly/core/states"
	"github.com/polynetwork/poly/core/store/overlaydb"
	"github.com/polynetwork/poly/core/types"
	"github.com/polynetwork/poly/native/event"
	scom "github.com/polynetwork/poly/native/service/cross_chain_manager/common"
	"github.com/polynetwork/poly/native/service/governance/side_chain_manager"
	"github.com/polynetwork/poly/native/service/utils"
	"github.com/polynetwork/poly/native/storage"
	"verif.local/engine/polyenv"
)

var CCM = utils.CrossChainManagerContractAddress

func LE64(v uint64) []byte {
	b := make([]byte, 8)
	binary.LittleEndian.PutUint64(b, v)
	return b
}

func cat(parts ...[]byte) []byte {
	var out []byte
	for _, p := range parts {
		out = append(out, p...)
	}
	return out
}

// raw store keys (string form as found in polyenv.Dump)
func DoneKey(chain uint64, id []byte) string {
	return polyenv.StorageKey(cat(CCM[:], []byte("doneTx"), LE64(chain), id))
}
func DonePrefix() string { return polyenv.StorageKey(cat(CCM[:], []byte("doneTx"))) }
func RequestKey(to uint64, txHash []byte) string {
	return polyenv.StorageKey(cat(CCM[:], []byte("request"), LE64(to), txHash))
}
func RequestPrefix() string { return polyenv.StorageKey(cat(CCM[:], []byte("request"))) }
func VoteKey(id []byte) string {
	return polyenv.StorageKey(cat(CCM[:], []byte("voteInfo"), id))
}
func VotePrefix() string { return polyenv.StorageKey(cat(CCM[:], []byte("voteInfo"))) }
func BlackKey(chain uint64) string {
	return polyenv.StorageKey(cat(CCM[:], []byte("BlackedChain"), LE64(chain)))
}
func SideChainKey(chain uint64) string {
	return polyenv.StorageKey(cat(utils.SideChainManagerContractAddress[:], []byte("sideChain"), LE64(chain)))
}

// VoteID is the identifier under which the vote / ripple routers collect votes (sha256 of the
// EntranceParam restricted to source chain, height, extra).
func VoteID(src uint64, height uint32, extra []byte) []byte {
	u := &scom.EntranceParam{SourceChainID: src, Height: height, Extra: extra}
	s := common.NewZeroCopySink(nil)
	u.Serialization(s)
	h := sha256.Sum256(s.Bytes())
	return h[:]
}

// Msg builds a MakeTxParam.
func Msg(srcTx, ccid []byte, fromContract []byte, to uint64, toContract []byte, method string, args []byte) *scom.MakeTxParam {
	return &scom.MakeTxParam{TxHash: srcTx, CrossChainID: ccid, FromContractAddress: fromContract,
		ToChainID: to, ToContractAddress: toContract, Method: method, Args: args}
}

func MsgBytes(m *scom.MakeTxParam) []byte {
	s := common.NewZeroCopySink(nil)
	m.Serialization(s)
	return s.Bytes()
}

// ImportTx builds an ImportOuterTransfer transaction.
func ImportTx(p *scom.EntranceParam, nonce uint32, signers ...polyenv.Signer) *types.Transaction {
	s := common.NewZeroCopySink(nil)
	p.Serialization(s)
	return polyenv.Tx(CCM, scom.IMPORT_OUTER_TRANSFER_NAME, s.Bytes(), nonce, signers...)
}

// VoteImport is the vote-router submission of `extra` from chain src at height by relayer (who signs).
func VoteImport(src uint64, height uint32, extra []byte, relayer *polyenv.Acct, nonce uint32) *types.Transaction {
	return ImportTx(&scom.EntranceParam{SourceChainID: src, Height: height, Extra: extra,
		RelayerAddress: relayer.Addr[:]}, nonce, polyenv.Single(relayer))
}

// BlackTx / WhiteTx build BlackChain / WhiteChain transactions with the given witness.
func BlackTx(chain uint64, white bool, nonce uint32, signers ...polyenv.Signer) *types.Transaction {
	p := &scom.BlackChainParam{ChainID: chain}
	s := common.NewZeroCopySink(nil)
	p.Serialization(s)
	m := scom.BLACK_CHAIN
	if white {
		m = scom.WHITE_CHAIN
	}
	return polyenv.Tx(CCM, m, s.Bytes(), nonce, signers...)
}

// SC describes a side chain to register.
type SC struct {
	ID, Router, Wait uint64
	Name             string
	CCMC, Extra      []byte
}

// RegisterTx is registerSideChain by owner.
func RegisterTx(sc SC, owner *polyenv.Acct, nonce uint32) *types.Transaction {
	p := &side_chain_manager.RegisterSideChainParam{Address: owner.Addr, ChainId: sc.ID, Router: sc.Router,
		Name: sc.Name, BlocksToWait: sc.Wait, CCMCAddress: sc.CCMC, ExtraInfo: sc.Extra}
	s := common.NewZeroCopySink(nil)
	if err := p.Serialization(s); err != nil {
		panic(err)
	}
	return polyenv.Tx(utils.SideChainManagerContractAddress, side_chain_manager.REGISTER_SIDE_CHAIN, s.Bytes(), nonce, polyenv.Single(owner))
}

// ApproveTx is approveRegisterSideChain by validator v.
func ApproveTx(chain uint64, v *polyenv.Acct, nonce uint32) *types.Transaction {
	p := &side_chain_manager.ChainidParam{Chainid: chain, Address: v.Addr}
	s := common.NewZeroCopySink(nil)
	p.Serialization(s)
	return polyenv.Tx(utils.SideChainManagerContractAddress, side_chain_manager.APPROVE_REGISTER_SIDE_CHAIN, s.Bytes(), nonce, polyenv.Single(v))
}

// Quorum is the reference ceil(2N/3).
func Quorum(n int) int {
	q := 0
	for 3*q < 2*n {
		q++
	}
	return q
}

// Register runs the real governance path registerSideChain + `approvals` approvals (by vals[0..approvals-1]).
// approvals < 0 means "as many as needed" (Quorum(len(vals))). Every tx must succeed.
func Register(w *polyenv.World, vals []*polyenv.Acct, sc SC, approvals int, height uint32) {
	if approvals < 0 {
		approvals = Quorum(len(vals))
	}
	owner := polyenv.Key(900)
	r := w.Exec(RegisterTx(sc, owner, uint32(sc.ID)), height, 1000)
	if !r.OK {
		panic(fmt.Sprintf("registerSideChain %d failed: %v", sc.ID, r.Err))
	}
	for i := 0; i < approvals; i++ {
		r = w.Exec(ApproveTx(sc.ID, vals[i], uint32(sc.ID)), height, 1000)
		if !r.OK {
			panic(fmt.Sprintf("approveRegisterSideChain %d by %d failed: %v", sc.ID, i, r.Err))
		}
	}
}

// HasPrefixKeys counts dump keys with the prefix.
func CountPrefix(d polyenv.Dump, prefix string) int {
	n := 0
	for _, kv := range d {
		if len(kv.K) >= len(prefix) && kv.K[:len(prefix)] == prefix {
			n++
		}
	}
	return n
}

func HasKey(d polyenv.Dump, k string) bool {
	for _, kv := range d {
		if kv.K == k {
			return true
		}
	}
	return false
}

// Val strips the StorageItem wrapper of a raw contract-storage value.
func Val(raw string) []byte {
	v, err := cstates.GetValueFromRawStorageItem([]byte(raw))
	if err != nil {
		panic(err)
	}
	return v
}

// Get returns the unwrapped value stored under raw key k (nil, false if absent).
func Get(d polyenv.Dump, k string) ([]byte, bool) {
	for _, kv := range d {
		if kv.K == k {
			return Val(kv.V), true
		}
	}
	return nil, false
}

// Worlds is a pool of reusable native worlds. polyenv.NewWorldFrom opens a fresh in-memory leveldb per call and
// polyenv.World.Exec allocates a fresh 4 MiB overlay per transaction (~15-100 ms together); With instead rewinds a
// pooled world to the wanted snapshot by writing only the key differences, and W.Exec reuses one overlay
// (Reset after every tx). The execution path is the same production path as polyenv.World.Exec.
type Worlds struct{ ch chan *W }

type W struct {
	*polyenv.World
	ov  *overlaydb.OverlayDB
	cur map[string]string
}

func NewWorlds(n int) *Worlds {
	p := &Worlds{ch: make(chan *W, n)}
	for i := 0; i < n; i++ {
		w := polyenv.NewWorld()
		p.ch <- &W{World: w, ov: overlaydb.NewOverlayDB(w.DB), cur: map[string]string{}}
	}
	return p
}

// Exec = polyenv.World.Exec with a reused overlay.
func (w *W) Exec(tx *types.Transaction, height, timestamp uint32) (res polyenv.Result) {
	overlay := w.ov
	overlay.Reset()
	defer overlay.Reset()
	cache := storage.NewCacheDB(overlay)
	block := polyenv.BlockCtx(height, timestamp)
	notify := &event.ExecuteNotify{TxHash: tx.Hash(), State: event.CONTRACT_STATE_FAIL}
	res.Notify = notify
	func() {
		defer func() {
			if x := recover(); x != nil {
				res.Panic = x
				res.Err = fmt.Errorf("panic: %v", x)
			}
		}()
		res.CrossHashes, res.Err = w.SS.HandleInvokeTransaction(nil, overlay, cache, tx, block, notify)
	}()
	if overlay.Error() != nil {
		res.Err = fmt.Errorf("overlay error: %v", overlay.Error())
		overlay.SetError(nil)
		return
	}
	res.OK = res.Err == nil
	overlay.GetWriteSet().ForEach(func(k, v []byte) {
		res.WriteSet = append(res.WriteSet, polyenv.KV{K: string(k), V: string(v)})
	})
	if res.Panic != nil {
		return
	}
	w.DB.NewBatch()
	overlay.CommitTo()
	if err := w.DB.BatchCommit(); err != nil {
		panic(err)
	}
	return
}

// With runs f on a world whose store holds exactly snapshot d.
func (p *Worlds) With(d polyenv.Dump, f func(w *W)) {
	s := <-p.ch
	defer func() {
		s.cur = s.World.Dump().Map()
		p.ch <- s
	}()
	want := d.Map()
	s.DB.NewBatch()
	for k := range s.cur {
		if _, ok := want[k]; !ok {
			s.DB.BatchDelete([]byte(k))
		}
	}
	for k, v := range want {
		if cv, ok := s.cur[k]; !ok || cv != v {
			s.DB.BatchPut([]byte(k), []byte(v))
		}
	}
	if err := s.DB.BatchCommit(); err != nil {
		panic(err)
	}
	f(s)
}
