package ccm

// Synthetic HSC (Huobi ECO support chain, router 20) source chain: a real go-ethereum secure-trie state
// (account trie -> CCMC account -> storage trie -> slot = keccak(message)) whose root is placed into a genesis
// header installed through the real header_sync.SyncGenesisHeader path (operator witness). With BlocksToWait = 1
// a proof at the genesis height is "confirmed", so complete valid imports can be synthesised offline.

import (
	"encoding/json"
	"fmt"
	"math/big"

	ecommon "github.com/ethereum/go-ethereum/common"
	"github.com/ethereum/go-ethereum/crypto"
	"github.com/ethereum/go-ethereum/ethdb/memorydb"
	"github.com/ethereum/go-ethereum/light"
	"github.com/ethereum/go-ethereum/rlp"
	"github.com/ethereum/go-ethereum/trie"
	"github.com/polynetwork/poly/common"
	"github.com/polynetwork/poly/core/types"
	scom "github.com/polynetwork/poly/native/service/cross_chain_manager/common"
	hscccm "github.com/polynetwork/poly/native/service/cross_chain_manager/hsc"
	hscom "github.com/polynetwork/poly/native/service/header_sync/common"
	"github.com/polynetwork/poly/native/service/header_sync/eth"
	hschs "github.com/polynetwork/poly/native/service/header_sync/hsc"
	"github.com/polynetwork/poly/native/service/utils"
	"verif.local/engine/polyenv"
)

type EthState struct {
	CCMC    []byte
	Root    ecommon.Hash
	storage *trie.Trie
	account *trie.Trie
	acct    acctRLP
}

type acctRLP struct {
	Nonce    *big.Int
	Balance  *big.Int
	Storage  ecommon.Hash
	Codehash ecommon.Hash
}

func hexNodes(nl light.NodeList) []string {
	var out []string
	for _, n := range nl {
		out = append(out, "0x"+ecommon.Bytes2Hex(n))
	}
	return out
}

// NewEthState builds the state: storage slot i (32-byte key = big-endian i+1) holds keccak256(msgs[i]).
func NewEthState(ccmc []byte, msgs [][]byte) *EthState {
	st, err := trie.New(ecommon.Hash{}, trie.NewDatabase(memorydb.New()))
	if err != nil {
		panic(err)
	}
	for i, m := range msgs {
		v, _ := rlp.EncodeToBytes(ecommon.TrimLeftZeroes(crypto.Keccak256(m)))
		st.Update(crypto.Keccak256(slotKey(i).Bytes()), v)
	}
	// two unrelated slots so that the trie has branch nodes
	for i := 1 << 20; i < 1<<20+3; i++ {
		v, _ := rlp.EncodeToBytes([]byte{byte(i)})
		st.Update(crypto.Keccak256(slotKey(i).Bytes()), v)
	}
	at, err := trie.New(ecommon.Hash{}, trie.NewDatabase(memorydb.New()))
	if err != nil {
		panic(err)
	}
	a := acctRLP{Nonce: big.NewInt(1), Balance: big.NewInt(0), Storage: st.Hash(), Codehash: crypto.Keccak256Hash([]byte("ccmc code"))}
	av, _ := rlp.EncodeToBytes(&a)
	at.Update(crypto.Keccak256(ccmc), av)
	for i := 0; i < 3; i++ {
		o := acctRLP{Nonce: big.NewInt(int64(i)), Balance: big.NewInt(7), Storage: ecommon.Hash{1}, Codehash: ecommon.Hash{2}}
		ov, _ := rlp.EncodeToBytes(&o)
		at.Update(crypto.Keccak256([]byte{byte(i), 0xee}), ov)
	}
	return &EthState{CCMC: ccmc, Root: at.Hash(), storage: st, account: at, acct: a}
}

func slotKey(i int) ecommon.Hash { return ecommon.BigToHash(big.NewInt(int64(i + 1))) }

// Proof returns the JSON proof (as the relayers submit it) for message slot i. dupNode duplicates the first
// storage-proof node: a different byte string that is an equally valid proof (node-set semantics).
func (s *EthState) Proof(i int, dupNode bool) []byte {
	var ap, sp light.NodeList
	if err := s.account.Prove(crypto.Keccak256(s.CCMC), 0, &ap); err != nil {
		panic(err)
	}
	if err := s.storage.Prove(crypto.Keccak256(slotKey(i).Bytes()), 0, &sp); err != nil {
		panic(err)
	}
	spx := hexNodes(sp)
	if dupNode {
		spx = append(spx, spx[0])
	}
	p := &hscccm.Proof{
		Address: "0x" + ecommon.Bytes2Hex(s.CCMC), Balance: "0x" + s.acct.Balance.Text(16), CodeHash: s.acct.Codehash.Hex(),
		Nonce: "0x" + s.acct.Nonce.Text(16), StorageHash: s.acct.Storage.Hex(), AccountProof: hexNodes(ap),
		StorageProofs: []hscccm.StorageProof{{Key: slotKey(i).Hex(), Value: "0x00", Proof: spx}},
	}
	b, err := json.Marshal(p)
	if err != nil {
		panic(err)
	}
	return b
}

// HscGenesisTx builds header_sync.SyncGenesisHeader for an HSC chain whose genesis header (height `number`)
// carries the state root.
func HscGenesisTx(chain uint64, root ecommon.Hash, number int64, nonce uint32, signers ...polyenv.Signer) *types.Transaction {
	extra := make([]byte, 32+20+65) // vanity + one validator + seal
	extra[32] = 0x11
	h := eth.Header{Root: root, Difficulty: big.NewInt(2), Number: big.NewInt(number), GasLimit: 8000000, Time: 1600000000, Extra: extra}
	g := hschs.GenesisHeader{Header: h, PrevValidators: []hschs.HeightAndValidators{{Height: big.NewInt(number - 200), Validators: []ecommon.Address{{0x11}}}}}
	gb, err := json.Marshal(&g)
	if err != nil {
		panic(err)
	}
	p := &hscom.SyncGenesisHeaderParam{ChainID: chain, GenesisHeader: gb}
	s := common.NewZeroCopySink(nil)
	p.Serialization(s)
	return polyenv.Tx(utils.HeaderSyncContractAddress, hscom.SYNC_GENESIS_HEADER, s.Bytes(), nonce, signers...)
}

// HscImport builds the import of message `extra` proven by `proof` at `height`.
func HscImport(chain uint64, height uint32, proof, extra []byte, relayer *polyenv.Acct, nonce uint32) *types.Transaction {
	return ImportTx(&scom.EntranceParam{SourceChainID: chain, Height: height, Proof: proof, Extra: extra,
		RelayerAddress: relayer.Addr[:]}, nonce, polyenv.Single(relayer))
}

var _ = fmt.Sprint
