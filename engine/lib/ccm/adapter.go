package ccm

// Router adapters: everything a property driver needs to synthesise complete, valid (and deliberately invalid)
// cross-chain submissions for one source-chain router offline. C20 and C22 iterate over Adapters(); an agent who
// builds synthetic-proof machinery for another router (eth-family MPT, ont/neo signatures, cosmos ...) only has
// to implement Adapter and call RegisterAdapter in an init() of this package (or of a package the drivers import).

import (
	"bytes"
	"math/big"

	"github.com/polynetwork/poly/common"
	"github.com/polynetwork/poly/core/types"
	scom "github.com/polynetwork/poly/native/service/cross_chain_manager/common"
	"github.com/polynetwork/poly/native/service/governance/side_chain_manager"
	"github.com/polynetwork/poly/native/service/utils"
	"verif.local/engine/polyenv"
)

// Submission variants.
const (
	VSame     = "same"     // the canonical submission of the message
	VHeight   = "height"   // same message claimed at another source height
	VAltProof = "altproof" // same message, a different byte string that is an equally valid proof
	VAltMsg   = "altmsg"   // same (chain, cross-chain id) carried by a different valid message / proof
	VBad      = "bad"      // invalid authentication (outsider vote / proof of another message)
	VEnvelope = "envelope" // same identified message, other bytes in the fields that are not part of its identity
	//                        (vote/ripple: Proof and HeaderOrCrossChainMsg; hsc: HeaderOrCrossChainMsg and unused proof fields)
)

// IDer is implemented by adapters whose cross-chain id is fixed by the proof material (BTC: the txid) instead of
// being a free field of the submitted message.
type IDer interface {
	CrossChainID(src uint64, i int) []byte
}

// Sub is one complete submission: the transactions in order (votes up to the quorum for vote-style routers, the
// single import tx for proof routers). Votes already present from earlier, abandoned submissions may complete
// the quorum before the last transaction, so oracles must treat every transaction as potentially deciding.
type Sub struct {
	Txs     []*types.Transaction
	TxValid []bool // per tx: authenticated correctly on its own (a validator's vote / a valid proof)
	Valid   bool   // the submission as a whole is a valid one (independent of replay state)
}

// Last is the final transaction of the submission.
func (s Sub) Last() *types.Transaction { return s.Txs[len(s.Txs)-1] }

type Adapter interface {
	Name() string
	Router() uint64
	Variants() []string
	// Seed registers the source chains (router = Router()) and installs whatever a valid submission needs
	// (headers, asset bindings ...). msgs lists, per source chain, every message (serialised MakeTxParam) the
	// driver may later submit; alt[i] is the VAltMsg twin of msgs[i] (same cross-chain id). Height is the poly
	// block height the seeding transactions execute at.
	Seed(w *polyenv.World, vals []*polyenv.Acct, srcs []uint64, msgs, alt map[uint64][][]byte, height uint32)
	// Submit builds the submission of message index i of chain src. relayer selects one of two disjoint ways
	// to submit (other voters / other relayer account); salt makes otherwise equal transactions distinct.
	Submit(src uint64, i int, variant string, relayer int, salt uint32) Sub
	// WrapArgs turns a free payload into an Args field this router accepts (identity except ripple).
	WrapArgs(payload []byte) []byte
	// Verified is the message the router hands on after verification (ripple rewrites two fields).
	Verified(src uint64, extra []byte) *scom.MakeTxParam
}

var adapters, fixedAdapters []func() Adapter

func RegisterAdapter(f func() Adapter) { adapters = append(adapters, f) }

// RegisterFixedAdapter registers an adapter whose messages are fixed by its proof material (BTC deposits): usable
// by drivers that only need "message i of chain c" (C20), not by drivers that choose message contents (C22).
func RegisterFixedAdapter(f func() Adapter) { fixedAdapters = append(fixedAdapters, f) }

// FixedAdapters returns fresh instances of the fixed-message adapters.
func FixedAdapters() []Adapter {
	var out []Adapter
	for _, f := range fixedAdapters {
		out = append(out, f())
	}
	return out
}

// Adapters returns fresh instances of every registered adapter.
func Adapters() []Adapter {
	var out []Adapter
	for _, f := range adapters {
		out = append(out, f())
	}
	return out
}

// RoutersWithoutAdapter names the routers of cross_chain_manager.GetChainHandler no adapter exists for.
func RoutersWithoutAdapter(includeFixed ...bool) []string {
	all := map[uint64]string{utils.VOTE_ROUTER: "vote", utils.BTC_ROUTER: "btc", utils.ETH_ROUTER: "eth", utils.ONT_ROUTER: "ont",
		utils.NEO_ROUTER: "neo", utils.NEO3_ROUTER: "neo3", utils.COSMOS_ROUTER: "cosmos", utils.QUORUM_ROUTER: "quorum",
		utils.BSC_ROUTER: "bsc", utils.HECO_ROUTER: "heco", utils.ZILLIQA_LEGACY_ROUTER: "zilliqalegacy", utils.ZILLIQA_ROUTER: "zilliqa",
		utils.MSC_ROUTER: "msc", utils.OKEX_ROUTER: "okex", utils.POLYGON_BOR_ROUTER: "polygon-bor", utils.PIXIECHAIN_ROUTER: "pixiechain",
		utils.STARCOIN_ROUTER: "starcoin", utils.HSC_ROUTER: "hsc", utils.HARMONY_ROUTER: "harmony(stubbed: no cgo bls)",
		utils.BYTOM_ROUTER: "bytom", utils.RIPPLE_ROUTER: "ripple"}
	for _, a := range Adapters() {
		delete(all, a.Router())
	}
	if len(includeFixed) > 0 && includeFixed[0] {
		for _, a := range FixedAdapters() {
			delete(all, a.Router())
		}
	}
	var out []string
	for _, n := range all {
		out = append(out, n)
	}
	sortStrings(out)
	return out
}

func sortStrings(s []string) {
	for i := range s {
		for j := i + 1; j < len(s); j++ {
			if s[j] < s[i] {
				s[i], s[j] = s[j], s[i]
			}
		}
	}
}

func parse(extra []byte) *scom.MakeTxParam {
	p := new(scom.MakeTxParam)
	if err := p.Deserialization(common.NewZeroCopySource(extra)); err != nil {
		panic(err)
	}
	return p
}

// --------------------------------------------------------------------------------------------------
// vote router: a submission is Quorum(N) votes of current validators on (chain, height, extra)

type voteAdapter struct {
	vals      []*polyenv.Acct
	msgs, alt map[uint64][][]byte
	ripple    bool
}

func init() {
	RegisterAdapter(func() Adapter { return &voteAdapter{} })
	RegisterAdapter(func() Adapter { return &voteAdapter{ripple: true} })
	RegisterAdapter(func() Adapter { return &hscAdapter{} })
}

func (a *voteAdapter) Name() string {
	if a.ripple {
		return "ripple"
	}
	return "vote"
}
func (a *voteAdapter) Router() uint64 {
	if a.ripple {
		return utils.RIPPLE_ROUTER
	}
	return utils.VOTE_ROUTER
}
func (a *voteAdapter) Variants() []string { return []string{VSame, VEnvelope, VHeight, VAltMsg, VBad} }

var (
	RippleOperator  = polyenv.Key(901)
	RippleAsset     = []byte{0xa5, 0x5e, 0x70}
	RippleLockProxy = []byte{0x10, 0xc4, 0x9e, 0x0f}
)

func (a *voteAdapter) Seed(w *polyenv.World, vals []*polyenv.Acct, srcs []uint64, msgs, alt map[uint64][][]byte, height uint32) {
	a.vals, a.msgs, a.alt = vals, msgs, alt
	for _, c := range srcs {
		if !a.ripple {
			Register(w, vals, SC{ID: c, Router: utils.VOTE_ROUTER, Wait: 1, Name: "vote-src", CCMC: []byte{byte(c)}}, -1, height)
			continue
		}
		x := &side_chain_manager.RippleExtraInfo{Operator: RippleOperator.Addr, Sequence: 1, Quorum: 1, SignerNum: 1, Pks: [][]byte{{2}}, ReserveAmount: big.NewInt(1)}
		xs := common.NewZeroCopySink(nil)
		x.Serialization(xs)
		Register(w, vals, SC{ID: c, Router: utils.RIPPLE_ROUTER, Wait: 1, Name: "xrp-src", CCMC: []byte{byte(c)}, Extra: xs.Bytes()}, -1, height)
		// bind every destination any message of this chain names
		am, lm := map[uint64][]byte{}, map[uint64][]byte{}
		for _, set := range [][][]byte{msgs[c], alt[c]} {
			for _, m := range set {
				to := parse(m).ToChainID
				am[to], lm[to] = RippleAsset, RippleLockProxy
			}
		}
		p := &side_chain_manager.RegisterAssetParam{OperatorAddress: RippleOperator.Addr, ChainId: c, AssetMap: am, LockProxyMap: lm}
		ps := common.NewZeroCopySink(nil)
		p.Serialization(ps)
		r := w.Exec(polyenv.Tx(utils.SideChainManagerContractAddress, side_chain_manager.REGISTER_ASSET, ps.Bytes(), uint32(c), polyenv.Single(RippleOperator)), height, 1000)
		if !r.OK {
			panic("registerAsset: " + r.Err.Error())
		}
	}
}

func (a *voteAdapter) Submit(src uint64, i int, variant string, relayer int, salt uint32) Sub {
	n := len(a.vals)
	q := Quorum(n)
	extra, h := a.msgs[src][i], uint32(100+i)
	switch variant {
	case VHeight:
		h += 1000
	case VAltMsg:
		extra = a.alt[src][i]
	}
	var voters []*polyenv.Acct
	for k := 0; k < q; k++ {
		if relayer == 0 {
			voters = append(voters, a.vals[k])
		} else {
			voters = append(voters, a.vals[n-1-k])
		}
	}
	s := Sub{Valid: variant != VBad}
	if variant == VBad {
		voters[q-1] = polyenv.Key(777) // the deciding vote comes from a non-validator
	}
	for k, v := range voters {
		if variant == VEnvelope {
			s.Txs = append(s.Txs, ImportTx(&scom.EntranceParam{SourceChainID: src, Height: h, Extra: extra, RelayerAddress: v.Addr[:],
				Proof: []byte("not part of the vote id"), HeaderOrCrossChainMsg: []byte{0xde, 0xad, byte(k)}}, salt, polyenv.Single(v)))
			s.TxValid = append(s.TxValid, true)
			continue
		}
		s.Txs = append(s.Txs, VoteImport(src, h, extra, v, salt))
		s.TxValid = append(s.TxValid, !(variant == VBad && k == q-1))
	}
	return s
}

func (a *voteAdapter) WrapArgs(p []byte) []byte {
	if a.ripple {
		return RippleArgs(p, 1000)
	}
	return p
}

// RippleArgs is the Args layout the ripple router expects from the source side: VarBytes(destination) ++ LE64(amount).
func RippleArgs(dst []byte, amount uint64) []byte {
	s := common.NewZeroCopySink(nil)
	s.WriteVarBytes(dst)
	s.WriteUint64(amount)
	return s.Bytes()
}

func (a *voteAdapter) Verified(src uint64, extra []byte) *scom.MakeTxParam {
	p := parse(extra)
	if !a.ripple {
		return p
	}
	// ripple: to-contract := bound lock proxy; args := VarBytes(asset) ++ VarBytes(dst) ++ amount as 32 bytes (LE64 ++ zeros)
	src0 := common.NewZeroCopySource(p.Args)
	dst, _ := src0.NextVarBytes()
	amt, _ := src0.NextUint64()
	s := common.NewZeroCopySink(nil)
	s.WriteVarBytes(RippleAsset)
	s.WriteVarBytes(dst)
	b := make([]byte, 32)
	copy(b, LE64(amt))
	s.WriteBytes(b)
	p.ToContractAddress = RippleLockProxy
	p.Args = s.Bytes()
	return p
}

// --------------------------------------------------------------------------------------------------
// hsc router (eth-style account/storage MPT proof against a synced header)

type hscAdapter struct {
	st        map[uint64]*EthState
	slot      map[uint64]map[string]int // chain -> message bytes -> slot index
	msgs, alt map[uint64][][]byte
}

const HscGenesisNumber = 5000

func (a *hscAdapter) Name() string       { return "hsc" }
func (a *hscAdapter) Router() uint64     { return utils.HSC_ROUTER }
func (a *hscAdapter) Variants() []string { return []string{VSame, VEnvelope, VAltProof, VAltMsg, VBad} }

func HscCCMC(chain uint64) []byte {
	b := make([]byte, 20)
	b[0], b[19] = 0xcc, byte(chain)
	return b
}

func (a *hscAdapter) Seed(w *polyenv.World, vals []*polyenv.Acct, srcs []uint64, msgs, alt map[uint64][][]byte, height uint32) {
	a.msgs, a.alt = msgs, alt
	a.st, a.slot = map[uint64]*EthState{}, map[uint64]map[string]int{}
	for _, c := range srcs {
		Register(w, vals, SC{ID: c, Router: utils.HSC_ROUTER, Wait: 1, Name: "hsc-src", CCMC: HscCCMC(c)}, -1, height)
		var all [][]byte
		a.slot[c] = map[string]int{}
		for _, set := range [][][]byte{msgs[c], alt[c]} {
			for _, m := range set {
				if _, ok := a.slot[c][string(m)]; !ok {
					a.slot[c][string(m)] = len(all)
					all = append(all, m)
				}
			}
		}
		a.st[c] = NewEthState(HscCCMC(c), all)
		r := w.Exec(HscGenesisTx(c, a.st[c].Root, HscGenesisNumber, uint32(c), polyenv.Multi(vals)), height, 1000)
		if !r.OK {
			panic("hsc syncGenesisHeader: " + r.Err.Error())
		}
	}
}

func (a *hscAdapter) Submit(src uint64, i int, variant string, relayer int, salt uint32) Sub {
	extra := a.msgs[src][i]
	if variant == VAltMsg {
		extra = a.alt[src][i]
	}
	slot := a.slot[src][string(extra)]
	proof := a.st[src].Proof(slot, variant == VAltProof)
	if variant == VBad { // valid proof of the twin message, presented for this message
		proof = a.st[src].Proof(a.slot[src][string(a.alt[src][i])], false)
	}
	rel := polyenv.Key(700 + relayer)
	if variant == VEnvelope {
		proof = bytes.Replace(proof, []byte(`"value":"0x00"`), []byte(`"value":"0xdeadbeef"`), 1) // field the verifier never reads
		tx := ImportTx(&scom.EntranceParam{SourceChainID: src, Height: HscGenesisNumber, Proof: proof, Extra: extra, RelayerAddress: rel.Addr[:],
			HeaderOrCrossChainMsg: []byte{0xde, 0xad}}, salt, polyenv.Single(rel))
		return Sub{Txs: []*types.Transaction{tx}, TxValid: []bool{true}, Valid: true}
	}
	return Sub{Txs: []*types.Transaction{HscImport(src, HscGenesisNumber, proof, extra, rel, salt)}, TxValid: []bool{variant != VBad}, Valid: variant != VBad}
}

func (a *hscAdapter) WrapArgs(p []byte) []byte { return p }

func (a *hscAdapter) Verified(src uint64, extra []byte) *scom.MakeTxParam { return parse(extra) }
