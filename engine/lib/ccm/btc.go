package ccm

// BTC router adapter (regtest parameters): a real header chain synced through header_sync (regtest genesis via
// SyncGenesisHeader, one mined block per deposit via SyncBlockHeader, merkle root = txid of its only transaction),
// a 2-of-3 vault whose redeem script is bound to a contract on the destination chain through the real
// side_chain_manager.RegisterRedeem, and deposit transactions (out[0] pays the vault P2WSH, out[1] is the OP_RETURN
// carrying the cross-chain args) relayed through ImportOuterTransfer with an SPV proof.
//
// The cross-chain message of the BTC router is identified by (source chain, txid). The txid does not cover witness
// data, so the same on-chain deposit has several envelopes: other witness bytes, witness stripped (non-witness
// serialisation), and — in a synthetic chain — inclusion in a second block at another height.

import (
	"bytes"
	"crypto/sha256"
	"encoding/binary"
	"fmt"
	"time"

	"github.com/btcsuite/btcd/blockchain"
	"github.com/btcsuite/btcd/btcec"
	"github.com/btcsuite/btcd/chaincfg"
	"github.com/btcsuite/btcd/chaincfg/chainhash"
	"github.com/btcsuite/btcd/txscript"
	"github.com/btcsuite/btcd/wire"
	"github.com/btcsuite/btcutil"
	bchhash "github.com/gcash/bchd/chaincfg/chainhash"
	wire_bch "github.com/gcash/bchd/wire"
	"github.com/polynetwork/poly/common"
	"github.com/polynetwork/poly/core/types"
	"github.com/polynetwork/poly/native/service/cross_chain_manager/btc"
	scom "github.com/polynetwork/poly/native/service/cross_chain_manager/common"
	"github.com/polynetwork/poly/native/service/governance/side_chain_manager"
	hscom "github.com/polynetwork/poly/native/service/header_sync/common"
	"github.com/polynetwork/poly/native/service/utils"
	"verif.local/engine/polyenv"
)

const (
	VWitness  = "witness"  // same transaction (same txid, same SPV proof), other witness bytes
	VStripped = "stripped" // same transaction in the non-witness serialisation
)

const btcRootHeight = uint32(100)

var btcFromContract = []byte{0xc2, 0x0c, 0x4b, 0x1d, 0x01, 0x02, 0x03, 0x04, 0x05, 0x06, 0x07, 0x08, 0x09, 0x0a, 0x0b, 0x0c, 0x0d, 0x0e, 0x0f, 0x10}

type btcDeposit struct {
	tx      *wire.MsgTx
	height  uint32 // block holding it
	proof   []byte
	height2 uint32 // second block holding the same txid (VHeight)
	proof2  []byte
}

type btcAdapter struct {
	keys   []*btcec.PrivateKey
	redeem []byte
	p2wsh  []byte
	dep    map[uint64][]*btcDeposit
}

func init() { RegisterFixedAdapter(func() Adapter { return newBtcAdapter() }) }

func newBtcAdapter() *btcAdapter {
	a := &btcAdapter{dep: map[uint64][]*btcDeposit{}}
	b := txscript.NewScriptBuilder().AddOp(txscript.OP_2)
	for i := 0; i < 3; i++ {
		seed := sha256.Sum256([]byte(fmt.Sprintf("ccm-btc-redeem-key-%d", i)))
		priv, pub := btcec.PrivKeyFromBytes(btcec.S256(), seed[:])
		a.keys = append(a.keys, priv)
		b.AddData(pub.SerializeCompressed())
	}
	var err error
	if a.redeem, err = b.AddOp(txscript.OP_3).AddOp(txscript.OP_CHECKMULTISIG).Script(); err != nil {
		panic(err)
	}
	wh := sha256.Sum256(a.redeem)
	addr, err := btcutil.NewAddressWitnessScriptHash(wh[:], &chaincfg.RegressionNetParams)
	if err != nil {
		panic(err)
	}
	if a.p2wsh, err = txscript.PayToAddrScript(addr); err != nil {
		panic(err)
	}
	return a
}

func (a *btcAdapter) Name() string   { return "btc" }
func (a *btcAdapter) Router() uint64 { return utils.BTC_ROUTER }
func (a *btcAdapter) Variants() []string {
	return []string{VSame, VWitness, VStripped, VHeight, VBad}
}
func (a *btcAdapter) WrapArgs(p []byte) []byte { return p }

func ser80(h *wire.BlockHeader) []byte {
	var b bytes.Buffer
	if err := h.Serialize(&b); err != nil {
		panic(err)
	}
	return b.Bytes()
}

func mine(h *wire.BlockHeader) {
	target := blockchain.CompactToBig(h.Bits)
	for n := uint32(0); ; n++ {
		h.Nonce = n
		bh := h.BlockHash()
		if blockchain.HashToBig(&bh).Cmp(target) <= 0 {
			return
		}
	}
}

// deposit i: identical outputs / payload for every i ("a different transaction with the same payload"), the funding
// outpoint differs. Independent of the chain: the same txid exists on both source chains.
func (a *btcAdapter) depositTx(i int, to uint64) *wire.MsgTx {
	mtx := wire.NewMsgTx(wire.TxVersion)
	ph := sha256.Sum256([]byte(fmt.Sprintf("ccm-btc-funding-%d", i)))
	prev, _ := chainhash.NewHash(ph[:])
	in := wire.NewTxIn(wire.NewOutPoint(prev, 0), nil, nil)
	in.Witness = wire.TxWitness{bytes.Repeat([]byte{0x30}, 71), bytes.Repeat([]byte{0x02}, 33)}
	mtx.AddTxIn(in)
	mtx.AddTxOut(wire.NewTxOut(100000, a.p2wsh))
	args := &btc.Args{ToChainID: to, Fee: 1000, Address: bytes.Repeat([]byte{0xab}, 20)}
	s := common.NewZeroCopySink(nil)
	args.Serialization(s)
	ret, err := txscript.NewScriptBuilder().AddOp(txscript.OP_RETURN).AddData(append([]byte{btc.OP_RETURN_SCRIPT_FLAG}, s.Bytes()...)).Script()
	if err != nil {
		panic(err)
	}
	mtx.AddTxOut(wire.NewTxOut(0, ret))
	return mtx
}

func spvProof(h *wire.BlockHeader, txid chainhash.Hash) []byte {
	var bh wire_bch.BlockHeader
	if err := bh.Deserialize(bytes.NewReader(ser80(h))); err != nil {
		panic(err)
	}
	th, _ := bchhash.NewHash(txid[:])
	mb := wire_bch.MsgMerkleBlock{Header: bh, Transactions: 1, Hashes: []*bchhash.Hash{th}, Flags: []byte{1}}
	var p bytes.Buffer
	if err := mb.BchEncode(&p, wire_bch.ProtocolVersion, wire_bch.LatestEncoding); err != nil {
		panic(err)
	}
	return p.Bytes()
}

func (a *btcAdapter) sign2(hash []byte) [][]byte {
	var out [][]byte
	for _, k := range a.keys[:2] {
		sig, err := k.Sign(hash)
		if err != nil {
			panic(err)
		}
		out = append(out, sig.Serialize())
	}
	return out
}

func (a *btcAdapter) Seed(w *polyenv.World, vals []*polyenv.Acct, srcs []uint64, msgs, alt map[uint64][][]byte, height uint32) {
	owner, relayer := polyenv.Key(900), polyenv.Key(30)
	must := func(what string, r polyenv.Result) {
		if !r.OK {
			panic(fmt.Sprintf("btc adapter: %s failed: %v", what, r.Err))
		}
	}
	for _, c := range srcs {
		to := parse(msgs[c][0]).ToChainID
		Register(w, vals, SC{ID: c, Router: utils.BTC_ROUTER, Wait: 1, Name: "btc-regtest", CCMC: LE64(uint64(utils.TyRegtest))}, -1, height)
		rr := &side_chain_manager.RegisterRedeemParam{RedeemChainID: c, ContractChainID: to, Redeem: a.redeem, CVersion: 0, ContractAddress: btcFromContract}
		m := cat(a.redeem, LE64(c), btcFromContract, LE64(to), LE64(0))
		rr.Signs = a.sign2(btcutil.Hash160(m))
		rs := common.NewZeroCopySink(nil)
		rr.Serialization(rs)
		must("registerRedeem", w.Exec(polyenv.Tx(utils.SideChainManagerContractAddress, side_chain_manager.REGISTER_REDEEM, rs.Bytes(), uint32(c), polyenv.Single(owner)), height, 1000))
		gh := chaincfg.RegressionNetParams.GenesisBlock.Header
		var hb [4]byte
		binary.BigEndian.PutUint32(hb[:], btcRootHeight)
		gp := &hscom.SyncGenesisHeaderParam{ChainID: c, GenesisHeader: append(ser80(&gh), hb[:]...)}
		gs := common.NewZeroCopySink(nil)
		gp.Serialization(gs)
		must("syncGenesisHeader(btc)", w.Exec(polyenv.Tx(utils.HeaderSyncContractAddress, hscom.SYNC_GENESIS_HEADER, gs.Bytes(), uint32(c), polyenv.Multi(vals)), height, 1000))
		prev := &gh
		h := btcRootHeight
		addBlock := func(root chainhash.Hash) (*wire.BlockHeader, uint32) {
			h++
			nh := &wire.BlockHeader{Version: 1, PrevBlock: prev.BlockHash(), MerkleRoot: root,
				Timestamp: time.Unix(1_600_000_000+int64(h), 0), Bits: chaincfg.RegressionNetParams.PowLimitBits}
			mine(nh)
			sp := &hscom.SyncBlockHeaderParam{ChainID: c, Address: relayer.Addr, Headers: [][]byte{ser80(nh)}}
			ss := common.NewZeroCopySink(nil)
			sp.Serialization(ss)
			must("syncBlockHeader(btc)", w.Exec(polyenv.Tx(utils.HeaderSyncContractAddress, hscom.SYNC_BLOCK_HEADER, ss.Bytes(), h, polyenv.Single(relayer)), height, 1000))
			prev = nh
			return nh, h
		}
		for i := range msgs[c] {
			d := &btcDeposit{tx: a.depositTx(i, to)}
			txid := d.tx.TxHash()
			b1, h1 := addBlock(txid)
			d.height, d.proof = h1, spvProof(b1, txid)
			b2, h2 := addBlock(txid) // the same txid committed by a second block: "same message claimed at another height"
			d.height2, d.proof2 = h2, spvProof(b2, txid)
			a.dep[c] = append(a.dep[c], d)
		}
	}
}

func rawBtc(mtx *wire.MsgTx, enc wire.MessageEncoding) []byte {
	var b bytes.Buffer
	if err := mtx.BtcEncode(&b, wire.ProtocolVersion, enc); err != nil {
		panic(err)
	}
	return b.Bytes()
}

// CrossChainID: the BTC router identifies a message by the txid.
func (a *btcAdapter) CrossChainID(src uint64, i int) []byte {
	h := a.dep[src][i].tx.TxHash()
	return h[:]
}

func (a *btcAdapter) Submit(src uint64, i int, variant string, relayer int, salt uint32) Sub {
	d := a.dep[src][i]
	mtx := d.tx.Copy()
	height, proof := d.height, d.proof
	raw := rawBtc(mtx, wire.LatestEncoding)
	switch variant {
	case VWitness:
		mtx.TxIn[0].Witness = wire.TxWitness{bytes.Repeat([]byte{0x31}, 72), bytes.Repeat([]byte{0x03}, 33)}
		raw = rawBtc(mtx, wire.LatestEncoding)
	case VStripped:
		raw = rawBtc(mtx, wire.BaseEncoding)
	case VHeight:
		height, proof = d.height2, d.proof2
	case VBad: // SPV proof of another deposit
		o := a.dep[src][(i+1)%len(a.dep[src])]
		height, proof = o.height, o.proof
	}
	rel := polyenv.Key(700 + relayer)
	tx := ImportTx(&scom.EntranceParam{SourceChainID: src, Height: height, Proof: proof, Extra: raw, RelayerAddress: rel.Addr[:]}, salt, polyenv.Single(rel))
	return Sub{Txs: []*types.Transaction{tx}, TxValid: []bool{variant != VBad}, Valid: variant != VBad}
}

func (a *btcAdapter) Verified(src uint64, extra []byte) *scom.MakeTxParam {
	panic("btc adapter: the message is fixed by the deposit transaction; not usable for free-message drivers")
}
