// Package maporder owns Go's map-iteration nondeterminism for the calling goroutine.
// It needs the GOROOT overlay (overlay/goroot.list): runtime/map.go + runtime/zz_verif_map.go.
//
// For a map with <= 8 entries (one bucket) the Go 1.23 runtime can produce exactly the rotations of the slot
// (insertion) order, selected by the in-bucket offset 0..7; for bigger maps the start bucket is controlled as well
// (bucket placement itself depends on the per-process hash seed). Exploring choices 0..7 at an iteration site is
// therefore exhaustive over what the runtime can really do for small maps.
package maporder

import _ "unsafe"

//go:linkname verifMapArm runtime.verifMapArm
func verifMapArm(choices []uint16, def uint16, sizes []int32)

//go:linkname verifMapArmAll runtime.verifMapArmAll
func verifMapArmAll(def uint16)

//go:linkname verifMapDisarm runtime.verifMapDisarm
func verifMapDisarm() int

// Trace of one armed execution.
type Trace struct {
	Iterations int     // number of map iterations started by this goroutine while armed
	Sizes      []int32 // element count of the iterated map, per iteration (up to cap)
}

// Run executes f with the map-iteration choices of the calling goroutine fixed to choices (then def).
// f must not hand map iteration to other goroutines if it wants them controlled.
func Run(choices []uint16, def uint16, f func()) Trace {
	sizes := make([]int32, 4096)
	verifMapArm(choices, def, sizes)
	var n int
	func() {
		defer func() { n = verifMapDisarm() }()
		f()
	}()
	if n < len(sizes) {
		sizes = sizes[:n]
	}
	return Trace{Iterations: n, Sizes: sizes}
}

// PinAll fixes the iteration start of EVERY goroutine's map iterations to def until Unpin: used by harnesses that own
// the scheduler as well (one goroutine runs at a time), so that executions are reproducible.
func PinAll(def uint16) { verifMapArmAll(def) }

// Unpin ends PinAll / Run control.
func Unpin() { verifMapDisarm() }
