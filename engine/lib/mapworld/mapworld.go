// Package mapworld (C18 / C34 drivers): a native "world" whose persistent store is a plain Go map instead of a
// goleveldb instance, so that a BFS successor (restore snapshot + one real transaction + snapshot) costs
// microseconds. Everything above the persistent store is the production stack: overlaydb.OverlayDB,
// storage.CacheDB, StateStore.HandleInvokeTransaction (NativeService.Invoke, CacheDB commit only on success).
// Contract: identical to polyenv.World (Exec / Dump / NewFrom); SelfCheck compares the two on a transaction list.
// No property logic lives here.
package mapworld

import (
	"fmt"
	"sort"
	"strings"
	"sync"

	scom "github.com/polynetwork/poly/core/store/common"
	"github.com/polynetwork/poly/core/store/ledgerstore"
	"github.com/polynetwork/poly/core/store/overlaydb"
	"github.com/polynetwork/poly/core/types"
	"github.com/polynetwork/poly/native"
	"github.com/polynetwork/poly/native/event"
	"github.com/polynetwork/poly/native/storage"
	"verif.local/engine/polyenv"
)

type World struct{ M map[string]string }

func New() *World { return &World{M: map[string]string{}} }

func NewFrom(d polyenv.Dump) *World {
	w := &World{M: make(map[string]string, len(d)+8)}
	for _, kv := range d {
		w.M[kv.K] = kv.V
	}
	return w
}

func (w *World) Dump() polyenv.Dump {
	d := make(polyenv.Dump, 0, len(w.M))
	for k, v := range w.M {
		d = append(d, polyenv.KV{K: k, V: v})
	}
	sort.Slice(d, func(i, j int) bool { return d[i].K < d[j].K })
	return d
}

// Storage returns the raw stored value of a contract-storage key (contract address ++ suffix), nil if absent.
func (w *World) Storage(key []byte) []byte {
	v, ok := w.M[polyenv.StorageKey(key)]
	if !ok {
		return nil
	}
	return []byte(v)
}

type mstore struct{ m map[string]string }

func (s *mstore) Put(k, v []byte) error { s.m[string(k)] = string(v); return nil }
func (s *mstore) Has(k []byte) (bool, error) {
	_, ok := s.m[string(k)]
	return ok, nil
}
func (s *mstore) Get(k []byte) ([]byte, error) {
	v, ok := s.m[string(k)]
	if !ok {
		return nil, scom.ErrNotFound
	}
	return []byte(v), nil
}
func (s *mstore) Delete(k []byte) error { delete(s.m, string(k)); return nil }
func (s *mstore) NewBatch()             {}
func (s *mstore) BatchPut(k, v []byte)  { s.m[string(k)] = string(v) }
func (s *mstore) BatchDelete(k []byte)  { delete(s.m, string(k)) }
func (s *mstore) BatchCommit() error    { return nil }
func (s *mstore) Close() error          { return nil }
func (s *mstore) NewIterator(prefix []byte) scom.StoreIterator {
	it := &miter{pos: -1}
	for k, v := range s.m {
		if strings.HasPrefix(k, string(prefix)) {
			it.kv = append(it.kv, polyenv.KV{K: k, V: v})
		}
	}
	sort.Slice(it.kv, func(i, j int) bool { return it.kv[i].K < it.kv[j].K })
	return it
}

type miter struct {
	kv  []polyenv.KV
	pos int
}

func (i *miter) Next() bool    { i.pos++; return i.pos < len(i.kv) }
func (i *miter) First() bool   { i.pos = 0; return len(i.kv) > 0 }
func (i *miter) Key() []byte   { return []byte(i.kv[i.pos].K) }
func (i *miter) Value() []byte { return []byte(i.kv[i.pos].V) }
func (i *miter) Release()      {}
func (i *miter) Error() error  { return nil }

type ectx struct {
	st    *mstore
	ov    *overlaydb.OverlayDB
	cache *storage.CacheDB
	dirty bool // the overlay holds a write set (it does only after a successful transaction)
}

// A fixed free list (not a sync.Pool: the 4 MiB OverlayDB buffers must survive garbage collections, re-allocating them
// dominated the run time). OverlayDB.Reset / CacheDB.Reset are the production reset calls used between transactions.
var (
	free   = make(chan *ectx, 64)
	ssOnce sync.Once
	ss     *ledgerstore.StateStore
)

func getCtx() *ectx {
	select {
	case c := <-free:
		return c
	default:
		s := &mstore{}
		ov := overlaydb.NewOverlayDB(s)
		return &ectx{st: s, ov: ov, cache: storage.NewCacheDB(ov)}
	}
}

func putCtx(c *ectx) {
	c.st.m = nil
	select {
	case free <- c:
	default:
	}
}

// Exec: one transaction as a one-transaction block through the production path; the write set is applied to the
// map only when the transaction succeeded (a failed transaction leaves no CacheDB commit, hence an empty write set).
func (w *World) Exec(tx *types.Transaction, height, timestamp uint32) (res polyenv.Result) {
	ssOnce.Do(func() { ss = ledgerstore.NewMemStateStore(0) })
	c := getCtx()
	defer putCtx(c)
	c.st.m = w.M
	if c.dirty { // an untouched overlay needs no reset (MemDB.Reset re-seeds a math/rand source: ~25us)
		c.ov.Reset()
		c.dirty = false
	}
	c.ov.SetError(nil)
	c.cache.Reset()
	cache := c.cache
	block := polyenv.BlockCtx(height, timestamp)
	notify := &event.ExecuteNotify{TxHash: tx.Hash(), State: event.CONTRACT_STATE_FAIL}
	res.Notify = notify
	func() {
		defer func() {
			if x := recover(); x != nil {
				res.Panic = x
				res.Err = fmt.Errorf("panic: %v", x)
			}
		}()
		res.CrossHashes, res.Err = ss.HandleInvokeTransaction(nil, c.ov, cache, tx, block, notify)
	}()
	if c.ov.Error() != nil {
		c.dirty = true
		res.Err = fmt.Errorf("overlay error: %v", c.ov.Error())
		return
	}
	res.OK = res.Err == nil
	c.dirty = true
	if !res.OK && c.ov.GetWriteSet().Len() == 0 {
		c.dirty = false
	}
	c.ov.GetWriteSet().ForEach(func(k, v []byte) {
		res.WriteSet = append(res.WriteSet, polyenv.KV{K: string(k), V: string(v)})
	})
	if res.Panic != nil {
		return
	}
	for _, kv := range res.WriteSet {
		if len(kv.V) == 0 {
			delete(w.M, kv.K)
		} else {
			w.M[kv.K] = kv.V
		}
	}
	return
}

func (w *World) Genesis(vals []*polyenv.Acct) {
	g := polyenv.GenesisBlock(vals)
	for _, tx := range g.Transactions {
		if r := w.Exec(tx, 0, g.Header.Timestamp); !r.OK {
			panic(fmt.Sprintf("genesis tx failed: %v", r.Err))
		}
	}
}

// ReadService returns a NativeService over a throw-away CacheDB on top of the world (reads only; nothing is
// committed), for the contracts' exported getters (node_manager.GetPeerPoolMap ...).
func (w *World) ReadService(tx *types.Transaction, height uint32) *native.NativeService {
	st := &mstore{m: w.M}
	cache := storage.NewCacheDB(overlaydb.NewOverlayDB(st))
	ns, err := native.NewNativeService(cache, tx, 0, height, [32]byte{}, polyenv.ChainID(), nil, true)
	if err != nil {
		panic(err)
	}
	return ns
}

// Op is one recorded transaction for SelfCheck.
type Op struct {
	Tx     *types.Transaction
	Height uint32
}

// SelfCheck replays genesis + ops on the leveldb-backed polyenv.World and on a mapworld and returns the first
// difference in acceptance or snapshot ("" = identical).
func SelfCheck(vals []*polyenv.Acct, ops []Op, timestamp uint32) string {
	a := polyenv.NewWorld()
	defer a.Close()
	a.Genesis(vals)
	b := New()
	b.Genesis(vals)
	for i, op := range ops {
		ra := a.Exec(op.Tx, op.Height, timestamp)
		rb := b.Exec(op.Tx, op.Height, timestamp)
		if ra.OK != rb.OK || (ra.Panic != nil) != (rb.Panic != nil) {
			return fmt.Sprintf("op %d: acceptance differs: %v / %v", i, ra.Err, rb.Err)
		}
		if a.Dump().String() != b.Dump().String() {
			return fmt.Sprintf("op %d: snapshots differ", i)
		}
	}
	return ""
}
