package rfc6962

// Textbook verifiers transcribed from RFC 9162 §2.1.3.2 / §2.1.4.2 (fn/sn formulation, a different
// algorithm shape from the certificate-transparency python port that /repo/merkle follows).
// The C07 driver uses them only to classify accepted-but-literally-false tuples: a tuple that a
// correct RFC verifier is forced to accept as well (proof hashes are opaque) is the structural
// "tree size is not committed to by the root" aliasing, not a verifier defect.

func lsb(x uint64) bool { return x&1 == 1 }

func VerifyInclusion(leafHash H, index, size uint64, path []H, root H) bool {
	if index >= size {
		return false
	}
	fn, sn, r := index, size-1, leafHash
	for _, p := range path {
		if sn == 0 {
			return false
		}
		if lsb(fn) || fn == sn {
			r = Node(p, r)
			if !lsb(fn) {
				for fn != 0 && !lsb(fn) {
					fn >>= 1
					sn >>= 1
				}
			}
		} else {
			r = Node(r, p)
		}
		fn >>= 1
		sn >>= 1
	}
	return sn == 0 && r == root
}

// VerifyConsistency for 0 < first < second.
func VerifyConsistency(first, second uint64, firstHash, secondHash H, path []H) bool {
	if len(path) == 0 || first == 0 || first >= second {
		return false
	}
	if first&(first-1) == 0 {
		path = append([]H{firstHash}, path...)
	}
	fn, sn := first-1, second-1
	for lsb(fn) {
		fn >>= 1
		sn >>= 1
	}
	fr, sr := path[0], path[0]
	for _, c := range path[1:] {
		if sn == 0 {
			return false
		}
		if lsb(fn) || fn == sn {
			fr, sr = Node(c, fr), Node(c, sr)
			if !lsb(fn) {
				for fn != 0 && !lsb(fn) {
					fn >>= 1
					sn >>= 1
				}
			}
		} else {
			sr = Node(sr, c)
		}
		fn >>= 1
		sn >>= 1
	}
	return fr == firstHash && sr == secondHash && sn == 0
}
