// Package rfc6962 is the boring textbook reference for RFC 6962 §2.1 (Merkle tree hash, audit
// path, consistency proof). It shares no code with /repo/merkle: plain recursion on slices.
// Used by the C06 / C07 drivers only.
package rfc6962

import "crypto/sha256"

type H = [32]byte

func Empty() H { return sha256.Sum256(nil) }

func Leaf(d []byte) H { return sha256.Sum256(append([]byte{0x00}, d...)) }

func Node(l, r H) H {
	b := append([]byte{0x01}, l[:]...)
	return sha256.Sum256(append(b, r[:]...))
}

// split: largest power of two strictly smaller than n (n >= 2).
func split(n int) int {
	k := 1
	for k*2 < n {
		k *= 2
	}
	return k
}

// MTH of a list of leaf hashes.
func MTH(lh []H) H {
	switch len(lh) {
	case 0:
		return Empty()
	case 1:
		return lh[0]
	}
	k := split(len(lh))
	return Node(MTH(lh[:k]), MTH(lh[k:]))
}

// Path is PATH(m, D[n]) in leaf-to-root order; right[i] tells that sib[i] is the RIGHT sibling.
func Path(m int, lh []H) (sib []H, right []bool) {
	n := len(lh)
	if n <= 1 {
		return nil, nil
	}
	k := split(n)
	if m < k {
		sib, right = Path(m, lh[:k])
		return append(sib, MTH(lh[k:])), append(right, true)
	}
	sib, right = Path(m-k, lh[k:])
	return append(sib, MTH(lh[:k])), append(right, false)
}

// Shape is the direction list of PATH(m, D[n]) without any hashes (pure function of m, n; m < n).
func Shape(m, n int) []bool {
	if n <= 1 {
		return nil
	}
	k := split(n)
	if m < k {
		return append(Shape(m, k), true)
	}
	return append(Shape(m-k, n-k), false)
}

// Proof is PROOF(m, D[n]) for 0 < m <= n.
func Proof(m int, lh []H) []H { return subproof(m, lh, true) }

func subproof(m int, lh []H, b bool) []H {
	n := len(lh)
	if m == n {
		if b {
			return nil
		}
		return []H{MTH(lh)}
	}
	k := split(n)
	if m <= k {
		return append(subproof(m, lh[:k], b), MTH(lh[k:]))
	}
	return append(subproof(m-k, lh[k:], false), MTH(lh[:k]))
}

// Nodes lists every node of the RFC 6962 tree over lh: its hash and its own path to the root
// (siblings leaf-to-root, directions). Leaves have IsLeaf set and Index = leaf index.
type NodeInfo struct {
	Hash   H
	IsLeaf bool
	Index  int
	Sib    []H
	Right  []bool
}

func Nodes(lh []H) []NodeInfo {
	var out []NodeInfo
	var walk func(lo, hi int, sib []H, right []bool) // sib/right are root-to-node here
	walk = func(lo, hi int, sib []H, right []bool) {
		rs := make([]H, len(sib))
		rr := make([]bool, len(sib))
		for i := range sib {
			rs[len(sib)-1-i], rr[len(sib)-1-i] = sib[i], right[i]
		}
		out = append(out, NodeInfo{Hash: MTH(lh[lo:hi]), IsLeaf: hi-lo == 1, Index: lo, Sib: rs, Right: rr})
		if hi-lo <= 1 {
			return
		}
		k := split(hi - lo)
		walk(lo, lo+k, append(append([]H{}, sib...), MTH(lh[lo+k:hi])), append(append([]bool{}, right...), true))
		walk(lo+k, hi, append(append([]H{}, sib...), MTH(lh[lo:lo+k])), append(append([]bool{}, right...), false))
	}
	if len(lh) > 0 {
		walk(0, len(lh), nil, nil)
	}
	return out
}
