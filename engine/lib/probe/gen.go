package probe

import (
	"fmt"

	"github.com/polynetwork/poly/core/types"
	"verif.local/engine/polyenv"
)

// Program generators shared by the C15 and C17 drivers. Values written by Put / MerkleVal / Notify are
// labelled with the position of the op ("<tag>.<pos>") so that every write is distinguishable.

// flat op templates; label is filled in per position
func flatOp(code string, label string) Op {
	switch code {
	case "PA":
		return Op{C: Put, K: 'a', V: "A" + label}
	case "PB":
		return Op{C: Put, K: 'b', V: "B" + label}
	case "DA":
		return Op{C: Del, K: 'a'}
	case "DB":
		return Op{C: Del, K: 'b'}
	case "GA":
		return Op{C: Get, K: 'a'}
	case "GB":
		return Op{C: Get, K: 'b'}
	case "MV":
		return Op{C: Merkle, V: "M" + label}
	case "NT":
		return Op{C: Notify, V: "N" + label}
	case "FL":
		return Op{C: Fail}
	}
	panic("bad flat op " + code)
}

// FlatAlphabet is the alphabet of Space A (single-transaction programs).
var FlatAlphabet = []string{"PA", "PB", "DA", "GA", "GB", "MV", "NT", "FL"}

// seqs enumerates all sequences over alpha with length in [0,maxLen], shortest first.
func seqs(alpha []string, maxLen int) [][]string {
	out := [][]string{{}}
	prev := [][]string{{}}
	for l := 1; l <= maxLen; l++ {
		var cur [][]string
		for _, p := range prev {
			for _, a := range alpha {
				cur = append(cur, append(append(make([]string, 0, l), p...), a))
			}
		}
		out = append(out, cur...)
		prev = cur
	}
	return out
}

func build(codes []string, tag string) []Op {
	p := make([]Op, len(codes))
	for i, c := range codes {
		p[i] = flatOp(c, fmt.Sprintf("%s%d", tag, i))
	}
	return p
}

// SpaceA calls f for every single-transaction program: all sequences of length <= maxLen over
// FlatAlphabet ∪ {Call(sub)} containing at most maxCalls Call ops, where sub ranges over all sequences
// of length <= subLen over subAlphabet (nil = FlatAlphabet) (Fail is an ordinary letter, so it occurs at every position,
// also inside the callee, after writes, after MerkleVal). Returns false from f to stop.
func SpaceA(maxLen, subLen, maxCalls int, subAlphabet []string, f func(p []Op) bool) {
	if subAlphabet == nil {
		subAlphabet = FlatAlphabet
	}
	subs := seqs(subAlphabet, subLen)
	var rec func(prefix []Op, calls int) bool
	rec = func(prefix []Op, calls int) bool {
		if !f(prefix) {
			return false
		}
		if len(prefix) == maxLen {
			return true
		}
		pos := len(prefix)
		for _, c := range FlatAlphabet {
			np := append(append(make([]Op, 0, pos+1), prefix...), flatOp(c, fmt.Sprintf("p%d", pos)))
			if !rec(np, calls) {
				return false
			}
		}
		if calls < maxCalls {
			for _, s := range subs {
				np := append(append(make([]Op, 0, pos+1), prefix...), Op{C: Call, Sub: build(s, fmt.Sprintf("p%dc", pos))})
				if !rec(np, calls+1) {
					return false
				}
			}
		}
		return true
	}
	rec(nil, 0)
}

// SpaceA2 enumerates doubly nested programs  [x0, Call([x1, Call([x2, x3]), x4]), x5]  with every xi
// drawn from alpha (use "--" for "no op at this slot").
func SpaceA2(alpha []string, f func(p []Op) bool) {
	n := len(alpha)
	idx := make([]int, 6)
	for {
		op := func(i int) []Op {
			c := alpha[idx[i]]
			if c == "--" {
				return nil
			}
			return []Op{flatOp(c, fmt.Sprintf("n%d", i))}
		}
		inner := Op{C: Call, Sub: append(append([]Op{}, op(2)...), op(3)...)}
		mid := append(append([]Op{}, op(1)...), inner)
		mid = append(mid, op(4)...)
		p := append(append([]Op{}, op(0)...), Op{C: Call, Sub: mid})
		p = append(p, op(5)...)
		if !f(p) {
			return
		}
		i := 5
		for ; i >= 0; i-- {
			idx[i]++
			if idx[i] < n {
				break
			}
			idx[i] = 0
		}
		if i < 0 {
			return
		}
	}
}

// Bodies returns the transaction bodies of Space B: all sequences of length <= maxLen over the given
// alphabet, where besides flat codes the letters "C1" = Call([PutB MerkleVal Notify]) and
// "C2" = Call([PutA MerkleVal Fail]) and "C3" = Call([DelA Notify]) are available. tag labels values.
func Bodies(alpha []string, maxLen int, tag string) [][]Op {
	var out [][]Op
	for _, s := range seqs(alpha, maxLen) {
		p := make([]Op, 0, len(s))
		for i, c := range s {
			l := fmt.Sprintf("%s%d", tag, i)
			switch c {
			case "C1":
				p = append(p, Op{C: Call, Sub: build([]string{"PB", "MV", "NT"}, l+"c")})
			case "C2":
				p = append(p, Op{C: Call, Sub: build([]string{"PA", "MV", "FL"}, l+"c")})
			case "C3":
				p = append(p, Op{C: Call, Sub: build([]string{"DA", "NT"}, l+"c")})
			default:
				p = append(p, flatOp(c, l))
			}
		}
		out = append(out, p)
	}
	return out
}

// Prog builds the single body spelled by codes (same letters as Bodies).
func Prog(codes []string, tag string) []Op {
	p := make([]Op, 0, len(codes))
	for i, c := range codes {
		l := fmt.Sprintf("%s%d", tag, i)
		switch c {
		case "C1":
			p = append(p, Op{C: Call, Sub: build([]string{"PB", "MV", "NT"}, l+"c")})
		case "C2":
			p = append(p, Op{C: Call, Sub: build([]string{"PA", "MV", "FL"}, l+"c")})
		case "C3":
			p = append(p, Op{C: Call, Sub: build([]string{"DA", "NT"}, l+"c")})
		default:
			p = append(p, flatOp(c, l))
		}
	}
	return p
}

// WithReads prefixes a body with the read prologue [Get a, Get b].
func WithReads(body []Op) []Op {
	return append([]Op{{C: Get, K: 'a'}, {C: Get, K: 'b'}}, body...)
}

// Relabel returns a copy of p in which every written value carries the extra tag (so that the same
// body used at different positions of a block writes different values).
func Relabel(p []Op, tag string) []Op {
	out := make([]Op, len(p))
	for i, o := range p {
		switch o.C {
		case Put, Merkle, Notify:
			o.V = tag + o.V
		case Call, Try:
			o.Sub = Relabel(o.Sub, tag)
		}
		out[i] = o
	}
	return out
}

// HasCall reports whether p contains a nested call.
func HasCall(p []Op) bool {
	for _, o := range p {
		if o.C == Call || o.C == Try {
			return true
		}
	}
	return false
}

// Size is the total number of ops including nested ones (used to keep the smallest counterexample).
func Size(p []Op) int {
	n := 0
	for _, o := range p {
		n += 1 + Size(o.Sub)
	}
	return n
}

// Tx wraps a program into a real invoke transaction of the probe contract.
func Tx(p []Op, nonce uint32, signer *polyenv.Acct) *types.Transaction {
	return polyenv.Tx(Addr, Method, Encode(p), nonce, polyenv.Single(signer))
}
