package probe

import (
	"os"
	"sync"

	"github.com/polynetwork/poly/core/store"
	"github.com/polynetwork/poly/core/types"
	"verif.local/engine/polyenv"
)

// Worker owns one real on-disk ledger (LedgerStoreImp.ExecuteBlock takes a global "saving block" lock,
// so parallel exploration needs one ledger per worker; all workers are brought to the same committed state).
type Worker struct {
	ID   int
	Ch   *polyenv.Chain
	Dir  string
	dry  *types.Block
	dryH uint32
}

// NewPool opens n ledgers under fresh scratch directories and runs seed on each (same deterministic blocks).
func NewPool(n int, vals []*polyenv.Acct, prefix string, seed func(w *Worker)) []*Worker {
	ws := make([]*Worker, n)
	var wg sync.WaitGroup
	for i := range ws {
		wg.Add(1)
		go func(i int) {
			defer wg.Done()
			dir := polyenv.TmpDir(prefix)
			ch, err := polyenv.OpenChain(dir, vals)
			if err != nil {
				panic(err)
			}
			ws[i] = &Worker{ID: i, Ch: ch, Dir: dir}
			if seed != nil {
				seed(ws[i])
			}
		}(i)
	}
	wg.Wait()
	return ws
}

func ClosePool(ws []*Worker) {
	for _, w := range ws {
		if w != nil {
			w.Ch.Close()
			os.RemoveAll(w.Dir)
		}
	}
}

// DryBlock builds the honest (unsigned) successor block carrying txs; it is only executed, never submitted.
func (w *Worker) DryBlock(txs []*types.Transaction) *types.Block {
	return w.Ch.NextBlock(txs, []*polyenv.Acct{})
}

// Exec dry-runs a block on top of the committed state through the real LedgerStoreImp.ExecuteBlock.
func (w *Worker) Exec(txs []*types.Transaction) (store.ExecuteResult, error) {
	return w.Ch.L.ExecuteBlock(w.DryBlock(txs))
}

// Commit executes and submits a fully signed block (ExecuteBlock + SubmitBlock, the consensus path).
func (w *Worker) Commit(txs []*types.Transaction) (store.ExecuteResult, *types.Block, error) {
	b := w.Ch.NextBlock(txs, nil)
	res, err := w.Ch.Commit(b)
	return res, b, err
}

// WriteSet flattens an ExecuteResult write set (value "" = delete).
func WriteSet(res store.ExecuteResult) map[string]string {
	out := map[string]string{}
	if res.WriteSet == nil {
		return out
	}
	res.WriteSet.ForEach(func(k, v []byte) { out[string(k)] = string(v) })
	return out
}

// DryHeader returns a cached empty successor block (context for single-transaction execution).
func (w *Worker) DryHeader() *types.Block {
	h := w.Ch.L.GetCurrentBlockHeight()
	if w.dry == nil || w.dryH != h {
		w.dry = w.DryBlock(nil)
		w.dryH = h
	}
	return w.dry
}
