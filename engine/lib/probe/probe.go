// Package probe is the C15/C17 "probe contract": an extra native contract registered from the driver
// (native.Contracts is an exported map) whose single method interprets a tiny program taken from
// its input. It contains no logic of its own beyond dispatching each op to the REAL NativeService /
// CacheDB primitives, so programs run inside the real NativeService.Invoke, CacheDB,
// StateStore.HandleInvokeTransaction and LedgerStoreImp.executeBlock.
package probe

import (
	"encoding/hex"
	"errors"
	"fmt"

	"github.com/polynetwork/poly/common"
	cstates "github.com/polynetwork/poly/core/states"
	"github.com/polynetwork/poly/native"
	"github.com/polynetwork/poly/native/event"
	"github.com/polynetwork/poly/native/service/utils"
)

// Addr is a fresh contract address (no real contract lives there).
var Addr = common.Address{0xC1, 0x5F, 'v', 'e', 'r', 'i', 'f', '-', 'p', 'r', 'o', 'b', 'e', 0, 0, 0, 0, 0, 0, 0x01}

const Method = "run"

// Op codes.
const (
	Put    = 'P' // Put K V
	Del    = 'D' // Del K
	Get    = 'G' // Get K : what was read is recorded as a notification
	Merkle = 'M' // PutMerkleVal(V)
	Notify = 'N' // AddNotify(V)
	Call   = 'C' // NativeCall(self, Sub); a callee error is propagated
	Try    = 'T' // NativeCall(self, Sub); a callee error is swallowed (caller goes on)
	Fail   = 'F' // return an error
)

type Op struct {
	C   byte
	K   byte
	V   string
	Sub []Op
}

func (o Op) String() string {
	switch o.C {
	case Put:
		return fmt.Sprintf("Put(%c,%s)", o.K, o.V)
	case Del:
		return fmt.Sprintf("Del(%c)", o.K)
	case Get:
		return fmt.Sprintf("Get(%c)", o.K)
	case Merkle:
		return fmt.Sprintf("MerkleVal(%s)", o.V)
	case Notify:
		return fmt.Sprintf("Notify(%s)", o.V)
	case Call:
		return "Call" + Show(o.Sub)
	case Try:
		return "Try" + Show(o.Sub)
	case Fail:
		return "Fail"
	}
	return "?"
}

func Show(p []Op) string {
	s := "["
	for i, o := range p {
		if i > 0 {
			s += " "
		}
		s += o.String()
	}
	return s + "]"
}

func Encode(p []Op) []byte {
	var b []byte
	for _, o := range p {
		b = append(b, o.C)
		switch o.C {
		case Put:
			b = append(b, o.K, byte(len(o.V)))
			b = append(b, o.V...)
		case Del, Get:
			b = append(b, o.K)
		case Merkle, Notify:
			b = append(b, byte(len(o.V)))
			b = append(b, o.V...)
		case Call, Try:
			s := Encode(o.Sub)
			b = append(b, byte(len(s)>>8), byte(len(s)))
			b = append(b, s...)
		}
	}
	return b
}

func Decode(b []byte) ([]Op, error) {
	var p []Op
	for i := 0; i < len(b); {
		o := Op{C: b[i]}
		i++
		need := func(n int) error {
			if i+n > len(b) {
				return errors.New("probe: truncated program")
			}
			return nil
		}
		switch o.C {
		case Put:
			if err := need(2); err != nil {
				return nil, err
			}
			o.K = b[i]
			n := int(b[i+1])
			i += 2
			if err := need(n); err != nil {
				return nil, err
			}
			o.V = string(b[i : i+n])
			i += n
		case Del, Get:
			if err := need(1); err != nil {
				return nil, err
			}
			o.K = b[i]
			i++
		case Merkle, Notify:
			if err := need(1); err != nil {
				return nil, err
			}
			n := int(b[i])
			i++
			if err := need(n); err != nil {
				return nil, err
			}
			o.V = string(b[i : i+n])
			i += n
		case Call, Try:
			if err := need(2); err != nil {
				return nil, err
			}
			n := int(b[i])<<8 | int(b[i+1])
			i += 2
			if err := need(n); err != nil {
				return nil, err
			}
			sub, err := Decode(b[i : i+n])
			if err != nil {
				return nil, err
			}
			o.Sub = sub
			i += n
		case Fail:
		default:
			return nil, fmt.Errorf("probe: bad opcode %x", o.C)
		}
		p = append(p, o)
	}
	return p, nil
}

// StorageKey is the contract-storage key of probe cell k (what the contract passes to CacheDB).
func StorageKey(k byte) []byte { return utils.ConcatKey(Addr, []byte("cell"), []byte{k}) }

// Item is the stored representation of value v.
func Item(v string) []byte { return cstates.GenRawStorageItem([]byte(v)) }

// ReadNote is the notification text produced by a Get that read raw (nil = absent).
func ReadNote(k byte, raw []byte) string {
	if raw == nil {
		return fmt.Sprintf("read:%c=<absent>", k)
	}
	return fmt.Sprintf("read:%c=%s", k, hex.EncodeToString(raw))
}

var ErrInjected = errors.New("probe: injected failure")

func run(s *native.NativeService) ([]byte, error) {
	prog, err := Decode(s.GetInput()) // read once: Invoke does not restore the caller's input after a nested call
	if err != nil {
		return utils.BYTE_FALSE, err
	}
	for _, o := range prog {
		switch o.C {
		case Put:
			s.GetCacheDB().Put(StorageKey(o.K), Item(o.V))
		case Del:
			s.GetCacheDB().Delete(StorageKey(o.K))
		case Get:
			raw, err := s.GetCacheDB().Get(StorageKey(o.K))
			if err != nil {
				return utils.BYTE_FALSE, err
			}
			s.AddNotify(&event.NotifyEventInfo{ContractAddress: Addr, States: ReadNote(o.K, raw)})
		case Merkle:
			s.PutMerkleVal([]byte(o.V))
		case Notify:
			s.AddNotify(&event.NotifyEventInfo{ContractAddress: Addr, States: "note:" + o.V})
		case Call:
			if _, err := s.NativeCall(Addr, Method, Encode(o.Sub)); err != nil {
				return utils.BYTE_FALSE, err
			}
		case Try:
			_, _ = s.NativeCall(Addr, Method, Encode(o.Sub))
		case Fail:
			return utils.BYTE_FALSE, ErrInjected
		}
	}
	return utils.BYTE_TRUE, nil
}

// Install registers the probe contract. Call once, after the real contracts were registered.
func Install() {
	native.Contracts[Addr] = func(s *native.NativeService) { s.Register(Method, run) }
}
