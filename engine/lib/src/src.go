// Package src resolves repository source files the way the current build sees them: a file replaced by the
// build overlay (VERIF_OVERLAY, e.g. a killdemo mutant) is read from its replacement.
package src

import (
	"encoding/json"
	"os"
	"path/filepath"
)

const Repo = "/repo"

var repl map[string]string

func load() {
	if repl != nil {
		return
	}
	repl = map[string]string{}
	p := os.Getenv("VERIF_OVERLAY")
	if p == "" {
		return
	}
	b, err := os.ReadFile(p)
	if err != nil {
		return
	}
	var o struct{ Replace map[string]string }
	if json.Unmarshal(b, &o) == nil {
		repl = o.Replace
	}
}

// Path returns the on-disk path of the repo-relative file as the build sees it ("" if the overlay deletes it).
func Path(rel string) string {
	load()
	abs := filepath.Join(Repo, rel)
	if r, ok := repl[abs]; ok {
		return r
	}
	return abs
}

// Read returns the content of the repo-relative file as the build sees it.
func Read(rel string) ([]byte, error) { return os.ReadFile(Path(rel)) }

// Replaced reports the overlay map (absolute repo path -> replacement path).
func Replaced() map[string]string { load(); return repl }
