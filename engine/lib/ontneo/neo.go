package ontneo

import (
	"bytes"
	"encoding/hex"
	"sort"

	"github.com/joeqian10/neo-gogogo/block"
	"github.com/joeqian10/neo-gogogo/crypto"
	"github.com/joeqian10/neo-gogogo/helper"
	nio "github.com/joeqian10/neo-gogogo/helper/io"
	"github.com/joeqian10/neo-gogogo/mpt"
	"github.com/joeqian10/neo-gogogo/tx"
	"github.com/joeqian10/neo-gogogo/wallet/keys"
	"github.com/ontio/ontology-crypto/ec"
	"verif.local/engine/polyenv"
)

// PrivBytes returns the 32-byte big-endian private scalar of a harness key (polyenv keys are *ec.PrivateKey).
func PrivBytes(a *polyenv.Acct) []byte {
	d := a.Priv.(*ec.PrivateKey).D.Bytes()
	out := make([]byte, 32)
	copy(out[32-len(d):], d)
	return out
}

// Sig is one signature slot of a NEO-style invocation script.
// K >= 0: signature by the K-th key (in SORTED script order) of the signing set; Foreign: by an outsider key;
// Bad: the signature (by K) is over another message.
type Sig struct {
	K       int
	Foreign bool
	Bad     bool
}

// NeoSet is an m-of-n multi-signature validator set for NEO (legacy, 2.x).
type NeoSet struct {
	M      int
	Pairs  []*keys.KeyPair // sorted as in the verification script
	Script []byte
	Hash   helper.UInt160
	out    *keys.KeyPair // an outsider
}

func NewNeoSet(m int, accts []*polyenv.Acct, outsider *polyenv.Acct) *NeoSet {
	s := &NeoSet{M: m}
	for _, a := range accts {
		kp, err := keys.NewKeyPair(PrivBytes(a))
		if err != nil {
			panic(err)
		}
		s.Pairs = append(s.Pairs, kp)
	}
	sort.Sort(keys.KeyPairSlice(s.Pairs))
	pubs := make([]*keys.PublicKey, len(s.Pairs))
	for i, p := range s.Pairs {
		pubs[i] = p.PublicKey
	}
	var err error
	s.Script, err = keys.CreateMultiSigRedeemScript(m, pubs...)
	if err != nil {
		panic(err)
	}
	s.Hash, err = helper.UInt160FromBytes(crypto.Hash160(s.Script))
	if err != nil {
		panic(err)
	}
	s.out, _ = keys.NewKeyPair(PrivBytes(outsider))
	return s
}

// SigBytes produces the raw 64-byte signatures of every member / the outsider over msg (good and bad variants),
// so that a driver can assemble thousands of invocation scripts without re-signing.
type NeoSigs struct {
	Good, Bad [][]byte
	Foreign   []byte
}

func (s *NeoSet) Sign(msg []byte) *NeoSigs {
	o := &NeoSigs{}
	other := append([]byte("other:"), msg...)
	for _, p := range s.Pairs {
		g, err := p.Sign(msg)
		if err != nil {
			panic(err)
		}
		b, _ := p.Sign(other)
		o.Good = append(o.Good, g)
		o.Bad = append(o.Bad, b)
	}
	o.Foreign, _ = s.out.Sign(msg)
	return o
}

// Invocation assembles a NEO 2.x invocation script: per signature PUSHBYTES64 (0x40) ++ 64 bytes.
func (o *NeoSigs) Invocation(list []Sig) []byte {
	var b bytes.Buffer
	for _, e := range list {
		b.WriteByte(0x40)
		b.Write(o.pick(e))
	}
	return b.Bytes()
}

func (o *NeoSigs) pick(e Sig) []byte {
	switch {
	case e.Foreign:
		return o.Foreign
	case e.Bad:
		return o.Bad[e.K]
	default:
		return o.Good[e.K]
	}
}

// NeoHeaderUnsigned returns the header (without witness) and the message its witness signs.
func NeoHeaderUnsigned(index uint32, next helper.UInt160, salt uint64) (*block.BlockHeader, []byte) {
	h := &block.BlockHeader{Version: 0, Timestamp: 1600000000 + index, Index: index, ConsensusData: salt, NextConsensus: next}
	return h, h.GetHashData()
}

// NeoHeaderBytes serialises the header with the given witness scripts.
func NeoHeaderBytes(h *block.BlockHeader, inv, ver []byte) []byte {
	c := *h
	c.Witness = &tx.Witness{InvocationScript: inv, VerificationScript: ver}
	bw := nio.NewBufBinaryWriter()
	c.Serialize(bw.BinaryWriter)
	if bw.Err != nil {
		panic(bw.Err)
	}
	return bw.Bytes()
}

// NeoStateRootUnsigned returns a NEO 2.x state root (cross-chain message) and the message its witness signs.
func NeoStateRootUnsigned(index uint32, root [32]byte) (*mpt.StateRoot, []byte) {
	var pre [32]byte
	pre[0] = 7
	p, _ := helper.UInt256FromBytes(pre[:])
	r, _ := helper.UInt256FromBytes(root[:])
	sr := &mpt.StateRoot{Version: 0, Index: index, PreHash: p.String(), StateRoot: r.String()}
	bw := nio.NewBufBinaryWriter()
	sr.SerializeUnsigned(bw.BinaryWriter)
	return sr, bw.Bytes()
}

func NeoStateRootWith(sr *mpt.StateRoot, inv, ver []byte) *mpt.StateRoot {
	c := *sr
	c.Witness.InvocationScript = hex.EncodeToString(inv)
	c.Witness.VerificationScript = hex.EncodeToString(ver)
	return &c
}

func NeoStateRootBytes(sr *mpt.StateRoot) []byte {
	bw := nio.NewBufBinaryWriter()
	sr.Serialize(bw.BinaryWriter)
	if bw.Err != nil {
		panic(bw.Err)
	}
	return bw.Bytes()
}
