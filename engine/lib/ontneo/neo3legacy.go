package ontneo

import (
	"bytes"
	"sort"

	"github.com/joeqian10/neo3-gogogo-legacy/block"
	"github.com/joeqian10/neo3-gogogo-legacy/crypto"
	"github.com/joeqian10/neo3-gogogo-legacy/helper"
	nio "github.com/joeqian10/neo3-gogogo-legacy/io"
	"github.com/joeqian10/neo3-gogogo-legacy/keys"
	"github.com/joeqian10/neo3-gogogo-legacy/mpt"
	"github.com/joeqian10/neo3-gogogo-legacy/rpc/models"
	"github.com/joeqian10/neo3-gogogo-legacy/sc"
	"github.com/joeqian10/neo3-gogogo-legacy/tx"
	"verif.local/engine/polyenv"
)

// Neo3LSet is an m-of-n multi-signature validator set for NEO N3.
type Neo3LSet struct {
	M      int
	Pairs  []*keys.KeyPair // sorted as in the verification script
	PubHex []string        // compressed public keys (sorted), the form neo3_state_manager stores
	Script []byte
	Hash   *helper.UInt160
	out    *keys.KeyPair
}

func NewNeo3LSet(m int, accts []*polyenv.Acct, outsider *polyenv.Acct) *Neo3LSet {
	s := &Neo3LSet{M: m}
	for _, a := range accts {
		kp, err := keys.NewKeyPair(PrivBytes(a))
		if err != nil {
			panic(err)
		}
		s.Pairs = append(s.Pairs, kp)
	}
	sort.Slice(s.Pairs, func(i, j int) bool { return s.Pairs[i].PublicKey.CompareTo(s.Pairs[j].PublicKey) < 0 })
	pubs := make([]crypto.ECPoint, len(s.Pairs))
	for i, p := range s.Pairs {
		pubs[i] = *p.PublicKey
		s.PubHex = append(s.PubHex, p.PublicKey.String())
	}
	var err error
	s.Script, err = sc.CreateMultiSigRedeemScript(m, pubs)
	if err != nil {
		panic(err)
	}
	s.Hash = crypto.BytesToScriptHash(s.Script)
	s.out, _ = keys.NewKeyPair(PrivBytes(outsider))
	return s
}

func (s *Neo3LSet) Sign(msg []byte) *Neo3LSigs {
	o := &Neo3LSigs{}
	other := append([]byte("other:"), msg...)
	for _, p := range s.Pairs {
		g, err := p.Sign(msg)
		if err != nil {
			panic(err)
		}
		b, _ := p.Sign(other)
		o.Good = append(o.Good, g)
		o.Bad = append(o.Bad, b)
	}
	o.Foreign, _ = s.out.Sign(msg)
	return o
}

type Neo3LSigs struct {
	Good, Bad [][]byte
	Foreign   []byte
}

// Invocation assembles a NEO N3 invocation script: per signature PUSHDATA1 (0x0c) 0x40 ++ 64 bytes.
func (o *Neo3LSigs) Invocation(list []Sig) []byte {
	var b bytes.Buffer
	for _, e := range list {
		b.WriteByte(0x0c)
		b.WriteByte(0x40)
		switch {
		case e.Foreign:
			b.Write(o.Foreign)
		case e.Bad:
			b.Write(o.Bad[e.K])
		default:
			b.Write(o.Good[e.K])
		}
	}
	return b.Bytes()
}

// Neo3Msg is what a NEO N3 witness signs: LE32(magic) ++ sha256(unsigned serialisation).
func neo3LMsg(magic uint32, unsigned []byte) []byte {
	hash := helper.UInt256FromBytes(crypto.Sha256(unsigned))
	buf := nio.NewBufBinaryWriter()
	buf.BinaryWriter.WriteLE(magic)
	buf.BinaryWriter.WriteLE(hash)
	return buf.Bytes()
}

func Neo3LHeaderUnsigned(index uint32, next *helper.UInt160, salt uint64, magic uint32) (*block.Header, []byte) {
	h := block.NewBlockHeader()
	h.SetIndex(index)
	h.SetTimeStamp(uint64(1600000000000) + uint64(index) + salt*1000)
	h.SetNextConsensus(next)
	bw := nio.NewBufBinaryWriter()
	h.SerializeUnsigned(bw.BinaryWriter)
	return h, neo3LMsg(magic, bw.Bytes())
}

func Neo3LHeaderBytes(h *block.Header, inv, ver []byte) []byte {
	old := h.Witness
	h.Witness = &tx.Witness{InvocationScript: inv, VerificationScript: ver}
	bw := nio.NewBufBinaryWriter()
	h.Serialize(bw.BinaryWriter)
	h.Witness = old
	if bw.Err != nil {
		panic(bw.Err)
	}
	return bw.Bytes()
}

func Neo3LStateRootUnsigned(index uint32, root [32]byte, magic uint32) (*mpt.StateRoot, []byte) {
	r := helper.UInt256FromBytes(root[:])
	sr := &mpt.StateRoot{Version: 0, Index: index, RootHash: "0x" + r.String()}
	bw := nio.NewBufBinaryWriter()
	sr.SerializeUnsigned(bw.BinaryWriter)
	return sr, neo3LMsg(magic, bw.Bytes())
}

func Neo3LStateRootWith(sr *mpt.StateRoot, inv, ver []byte) *mpt.StateRoot {
	c := *sr
	c.Witnesses = []models.RpcWitness{{Invocation: crypto.Base64Encode(inv), Verification: crypto.Base64Encode(ver)}}
	return &c
}

func Neo3LStateRootBytes(sr *mpt.StateRoot) []byte {
	bw := nio.NewBufBinaryWriter()
	sr.Serialize(bw.BinaryWriter)
	if bw.Err != nil {
		panic(bw.Err)
	}
	return bw.Bytes()
}

