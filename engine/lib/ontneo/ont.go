// Package ontneo synthesises Ontology / NEO / NEO N3 light-client inputs (headers, cross-chain messages,
// multi-signature witnesses) signed with the harness' deterministic P-256 keys, and the small amount of
// governance plumbing (side-chain registration with ExtraInfo, NEO N3 state validators) the C19/C24/C31
// drivers need. Nothing of the code under test is reused for verdicts: the builders only *produce* inputs and
// report, by construction, which keys validly signed them.
package ontneo

import (
	"encoding/json"
	"fmt"
	"sync/atomic"

	"github.com/ontio/ontology-crypto/keypair"
	ocommon "github.com/ontio/ontology/common"
	otypes "github.com/ontio/ontology/core/types"
	"github.com/polynetwork/poly/common"
	vconfig "github.com/polynetwork/poly/consensus/vbft/config"
	"github.com/polynetwork/poly/core/signature"
	"github.com/polynetwork/poly/core/types"
	ccmcom "github.com/polynetwork/poly/native/service/cross_chain_manager/common"
	"github.com/polynetwork/poly/native/service/governance/neo3_state_manager"
	"github.com/polynetwork/poly/native/service/governance/side_chain_manager"
	hscommon "github.com/polynetwork/poly/native/service/header_sync/common"
	"github.com/polynetwork/poly/native/service/utils"
	"verif.local/engine/lib/hsenv"
	"verif.local/engine/polyenv"
)

var nonce uint32 = 500000

func NextNonce() uint32 { return atomic.AddUint32(&nonce, 1) }

// Execer is what World and hsenv.Sim share.
type Execer interface {
	Exec(tx *types.Transaction, height, timestamp uint32) polyenv.Result
}

// RegisterSideChain = real registerSideChain + approvals, with ExtraInfo (NEO N3 magic, msc epoch ...).
func RegisterSideChain(w Execer, vals []*polyenv.Acct, chainID, router uint64, name string, ccmc, extra []byte) error {
	owner := polyenv.Key(20)
	p := &side_chain_manager.RegisterSideChainParam{Address: owner.Addr, ChainId: chainID, Router: router, Name: name,
		BlocksToWait: 1, CCMCAddress: ccmc, ExtraInfo: extra}
	sink := common.NewZeroCopySink(nil)
	if err := p.Serialization(sink); err != nil {
		return err
	}
	r := w.Exec(polyenv.Tx(utils.SideChainManagerContractAddress, side_chain_manager.REGISTER_SIDE_CHAIN, sink.Bytes(),
		NextNonce(), polyenv.Single(owner)), 1, 100)
	if !r.OK {
		return fmt.Errorf("registerSideChain: %v", r.Err)
	}
	approved := false
	for _, v := range vals {
		cp := &side_chain_manager.ChainidParam{Chainid: chainID, Address: v.Addr}
		s2 := common.NewZeroCopySink(nil)
		cp.Serialization(s2)
		r := w.Exec(polyenv.Tx(utils.SideChainManagerContractAddress, side_chain_manager.APPROVE_REGISTER_SIDE_CHAIN,
			s2.Bytes(), NextNonce(), polyenv.Single(v)), 1, 100)
		if !r.OK {
			break
		}
		approved = true
	}
	if !approved {
		return fmt.Errorf("no approval of side chain %d succeeded", chainID)
	}
	return nil
}

// RegisterStateValidators installs NEO N3 state validators through the real neo3_state_manager transactions
// (registerStateValidator by an applicant, approvals by the consensus validators).
func RegisterStateValidators(w Execer, vals []*polyenv.Acct, pubHex []string, applyID uint64) error {
	app := polyenv.Key(21)
	p := &neo3_state_manager.StateValidatorListParam{StateValidators: pubHex, Address: app.Addr}
	sink := common.NewZeroCopySink(nil)
	p.Serialization(sink)
	r := w.Exec(polyenv.Tx(utils.Neo3StateManagerContractAddress, neo3_state_manager.REGISTER_STATE_VALIDATOR, sink.Bytes(),
		NextNonce(), polyenv.Single(app)), 1, 100)
	if !r.OK {
		return fmt.Errorf("registerStateValidator: %v", r.Err)
	}
	for _, v := range vals {
		ap := &neo3_state_manager.ApproveStateValidatorParam{ID: applyID, Address: v.Addr}
		s2 := common.NewZeroCopySink(nil)
		ap.Serialization(s2)
		r := w.Exec(polyenv.Tx(utils.Neo3StateManagerContractAddress, neo3_state_manager.APPROVE_REGISTER_STATE_VALIDATOR,
			s2.Bytes(), NextNonce(), polyenv.Single(v)), 1, 100)
		if !r.OK {
			break
		}
	}
	return nil
}

// GenesisTx / HeadersTx / CrossMsgTx / ImportTx build the real contract transactions.
func GenesisTx(vals []*polyenv.Acct, chainID uint64, raw []byte) *types.Transaction {
	p := &hscommon.SyncGenesisHeaderParam{ChainID: chainID, GenesisHeader: raw}
	sink := common.NewZeroCopySink(nil)
	p.Serialization(sink)
	return polyenv.Tx(utils.HeaderSyncContractAddress, hscommon.SYNC_GENESIS_HEADER, sink.Bytes(), NextNonce(), polyenv.Multi(vals))
}

func HeadersTx(chainID uint64, raws ...[]byte) *types.Transaction {
	return hsenv.HeadersTx(chainID, raws...)
}

func CrossMsgTx(chainID uint64, msgs ...[]byte) *types.Transaction {
	relayer := polyenv.Key(30)
	p := &hscommon.SyncCrossChainMsgParam{ChainID: chainID, Address: relayer.Addr, CrossChainMsgs: msgs}
	sink := common.NewZeroCopySink(nil)
	p.Serialization(sink)
	return polyenv.Tx(utils.HeaderSyncContractAddress, hscommon.SYNC_CROSS_CHAIN_MSG, sink.Bytes(), NextNonce(), polyenv.Single(relayer))
}

// ImportTx is cross_chain_manager.importOuterTransfer with the given message / proof.
func ImportTx(chainID uint64, height uint32, proof, msg []byte) *types.Transaction {
	relayer := polyenv.Key(30)
	p := &ccmcom.EntranceParam{SourceChainID: chainID, Height: height, Proof: proof, RelayerAddress: relayer.Addr[:],
		Extra: nil, HeaderOrCrossChainMsg: msg}
	sink := common.NewZeroCopySink(nil)
	p.Serialization(sink)
	return polyenv.Tx(utils.CrossChainManagerContractAddress, ccmcom.IMPORT_OUTER_TRANSFER_NAME, sink.Bytes(), NextNonce(), polyenv.Single(relayer))
}

// ---------------------------------------------------------------------------------------------
// Ontology

// OntSigner is one (bookkeeper, signature) entry of a header / cross-chain message.
type OntSigner struct {
	Key *polyenv.Acct
	Bad bool // the signature is a well-formed signature of this key over ANOTHER message
	// NoSig: the key is listed but no signature is appended for it
	NoSig bool
}

func ontSign(k *polyenv.Acct, hash []byte, bad bool) []byte {
	msg := hash
	if bad {
		msg = append([]byte("not-the-message:"), hash...)
	}
	sd, err := signature.Sign(k, msg)
	if err != nil {
		panic(err)
	}
	return sd
}

// OntPayload is the VBFT consensus payload; peers != nil makes the header a key (config-change) header.
func OntPayload(peers []*polyenv.Acct, lastCfg uint32) []byte {
	bi := &vconfig.VbftBlockInfo{Proposer: 1, VrfValue: []byte{1}, VrfProof: []byte{2}, LastConfigBlockNum: lastCfg}
	if peers != nil {
		cc := &vconfig.ChainConfig{Version: 1, View: 1, N: uint32(len(peers)), C: uint32((len(peers) - 1) / 3),
			BlockMsgDelay: 10000, HashMsgDelay: 10000, PeerHandshakeTimeout: 10, MaxBlockChangeView: 1000, PosTable: []uint32{}}
		for i, p := range peers {
			cc.Peers = append(cc.Peers, &vconfig.PeerConfig{Index: uint32(i + 1), ID: p.PubHex})
		}
		bi.NewChainConfig = cc
	}
	b, err := json.Marshal(bi)
	if err != nil {
		panic(err)
	}
	return b
}

// OntHeader builds and serialises an Ontology header. salt distinguishes otherwise equal headers.
func OntHeader(height uint32, peers []*polyenv.Acct, salt uint64, signers []OntSigner) []byte {
	h := &otypes.Header{Version: 0, Timestamp: 1600000000 + height, Height: height, ConsensusData: salt,
		ConsensusPayload: OntPayload(peers, 0)}
	hash := h.Hash()
	for _, s := range signers {
		h.Bookkeepers = append(h.Bookkeepers, s.Key.Pub)
		if !s.NoSig {
			h.SigData = append(h.SigData, ontSign(s.Key, hash[:], s.Bad))
		}
	}
	sink := ocommon.NewZeroCopySink(nil)
	h.Serialization(sink)
	return sink.Bytes()
}

// OntCrossMsg builds the wire form accepted by SyncCrossChainMsg / MakeDepositProposal:
// CrossChainMsg ++ varuint(n) ++ n * varbytes(pubkey).
func OntCrossMsg(height uint32, root [32]byte, signers []OntSigner) []byte {
	m := &otypes.CrossChainMsg{Version: 0, Height: height, StatesRoot: ocommon.Uint256(root)}
	hash := m.Hash()
	var keys []keypair.PublicKey
	for _, s := range signers {
		keys = append(keys, s.Key.Pub)
		if !s.NoSig {
			m.SigData = append(m.SigData, ontSign(s.Key, hash[:], s.Bad))
		}
	}
	sink := ocommon.NewZeroCopySink(nil)
	m.Serialization(sink)
	sink.WriteVarUint(uint64(len(keys)))
	for _, k := range keys {
		sink.WriteVarBytes(keypair.SerializePublicKey(k))
	}
	return sink.Bytes()
}

// OntSigCache memoises signatures per (key, message, bad) so that a driver enumerating thousands of signer
// lists over the same message signs each key once.
type OntSigCache struct {
	hash []byte
	m    map[string][]byte
}

func NewOntSigCache(hash []byte) *OntSigCache {
	return &OntSigCache{hash: hash, m: map[string][]byte{}}
}

func (c *OntSigCache) Sig(k *polyenv.Acct, bad bool) []byte {
	id := fmt.Sprintf("%s/%v", k.PubHex, bad)
	if s, ok := c.m[id]; ok {
		return s
	}
	s := ontSign(k, c.hash, bad)
	c.m[id] = s
	return s
}

// OntCrossMsgCached is OntCrossMsg using a signature cache (the cache must have been created for this message).
func OntCrossMsgCached(height uint32, root [32]byte, signers []OntSigner, cache func(hash []byte) *OntSigCache) []byte {
	m := &otypes.CrossChainMsg{Version: 0, Height: height, StatesRoot: ocommon.Uint256(root)}
	hash := m.Hash()
	c := cache(hash[:])
	var keys []keypair.PublicKey
	for _, s := range signers {
		keys = append(keys, s.Key.Pub)
		if !s.NoSig {
			m.SigData = append(m.SigData, c.Sig(s.Key, s.Bad))
		}
	}
	sink := ocommon.NewZeroCopySink(nil)
	m.Serialization(sink)
	sink.WriteVarUint(uint64(len(keys)))
	for _, k := range keys {
		sink.WriteVarBytes(keypair.SerializePublicKey(k))
	}
	return sink.Bytes()
}

// ---------------------------------------------------------------------------------------------
// layout builders: the listed keys and the signatures are independent ordered lists.

// OntSig is one element of SigData: a signature by By (over the message, or over another message when Bad).
type OntSig struct {
	By  *polyenv.Acct
	Bad bool
}

// OntCrossMsgLayout builds CrossChainMsg ++ bookkeepers where `keys` is the listed bookkeeper order and `sigs`
// the SigData order; neither needs to correspond to the other.
func OntCrossMsgLayout(height uint32, root [32]byte, keys []*polyenv.Acct, sigs []OntSig) (raw []byte, hash []byte, sigData [][]byte) {
	m := &otypes.CrossChainMsg{Version: 0, Height: height, StatesRoot: ocommon.Uint256(root)}
	h := m.Hash()
	for _, s := range sigs {
		m.SigData = append(m.SigData, ontSign(s.By, h[:], s.Bad))
	}
	sink := ocommon.NewZeroCopySink(nil)
	m.Serialization(sink)
	sink.WriteVarUint(uint64(len(keys)))
	for _, k := range keys {
		sink.WriteVarBytes(keypair.SerializePublicKey(k.Pub))
	}
	return sink.Bytes(), h[:], m.SigData
}

// OntHeaderLayout is OntHeader with independent bookkeeper / signature lists.
func OntHeaderLayout(height uint32, peers []*polyenv.Acct, salt uint64, keys []*polyenv.Acct, sigs []OntSig) []byte {
	h := &otypes.Header{Version: 0, Timestamp: 1600000000 + height, Height: height, ConsensusData: salt,
		ConsensusPayload: OntPayload(peers, 0)}
	hash := h.Hash()
	for _, k := range keys {
		h.Bookkeepers = append(h.Bookkeepers, k.Pub)
	}
	for _, s := range sigs {
		h.SigData = append(h.SigData, ontSign(s.By, hash[:], s.Bad))
	}
	sink := ocommon.NewZeroCopySink(nil)
	h.Serialization(sink)
	return sink.Bytes()
}

// OntVerify reports whether sig is a valid signature of k over hash (independent use of ontology-crypto).
func OntVerify(k *polyenv.Acct, hash, sig []byte) bool {
	return signature.Verify(k.Pub, hash, sig) == nil
}
