package gov

import (
	"fmt"
	"sort"
	"strings"
	"sync"

	"github.com/polynetwork/poly/common"
	scom "github.com/polynetwork/poly/core/store/common"
	"github.com/polynetwork/poly/core/store/ledgerstore"
	"github.com/polynetwork/poly/core/store/overlaydb"
	"github.com/polynetwork/poly/core/types"
	"github.com/polynetwork/poly/native/event"
	"github.com/polynetwork/poly/native/storage"
	"verif.local/engine/polyenv"
)

// World is a cheap equivalent of polyenv.World for BFS successors: the persistent store under the
// production OverlayDB / CacheDB / StateStore.HandleInvokeTransaction stack is a plain sorted map instead
// of a goleveldb instance (opening two leveldb instances per successor dominated the run time), and the
// 4 MiB OverlayDB write buffer is pooled. The transaction path itself (NativeService.Invoke, commit of the
// CacheDB only on success, write set applied to the store) is identical to polyenv.World.Exec;
// SelfCheck compares both on a transaction list.
type World struct {
	m map[string]string
}

func NewWorld() *World { return &World{m: map[string]string{}} }

func NewWorldFrom(d polyenv.Dump) *World {
	w := &World{m: make(map[string]string, len(d)+8)}
	for _, kv := range d {
		w.m[kv.K] = kv.V
	}
	return w
}

func (w *World) Close() {}

func (w *World) Dump() polyenv.Dump {
	d := make(polyenv.Dump, 0, len(w.m))
	for k, v := range w.m {
		d = append(d, polyenv.KV{K: k, V: v})
	}
	sort.Slice(d, func(i, j int) bool { return d[i].K < d[j].K })
	return d
}

func (w *World) Map() map[string]string { return w.m }

// mapStore: scom.PersistStore over the world's map (reads only; commits are applied by Exec).
type mapStore struct{ m map[string]string }

func (s *mapStore) Put(key []byte, value []byte) error { s.m[string(key)] = string(value); return nil }
func (s *mapStore) Has(key []byte) (bool, error)       { _, ok := s.m[string(key)]; return ok, nil }
func (s *mapStore) Get(key []byte) ([]byte, error) {
	v, ok := s.m[string(key)]
	if !ok {
		return nil, scom.ErrNotFound
	}
	return []byte(v), nil
}
func (s *mapStore) Delete(key []byte) error           { delete(s.m, string(key)); return nil }
func (s *mapStore) NewBatch()                         {}
func (s *mapStore) BatchPut(key []byte, value []byte) { s.m[string(key)] = string(value) }
func (s *mapStore) BatchDelete(key []byte)            { delete(s.m, string(key)) }
func (s *mapStore) BatchCommit() error                { return nil }
func (s *mapStore) Close() error                      { return nil }
func (s *mapStore) NewIterator(prefix []byte) scom.StoreIterator {
	it := &mapIter{pos: -1}
	for k, v := range s.m {
		if strings.HasPrefix(k, string(prefix)) {
			it.kv = append(it.kv, polyenv.KV{K: k, V: v})
		}
	}
	sort.Slice(it.kv, func(i, j int) bool { return it.kv[i].K < it.kv[j].K })
	return it
}

type mapIter struct {
	kv  []polyenv.KV
	pos int
}

func (i *mapIter) Next() bool    { i.pos++; return i.pos < len(i.kv) }
func (i *mapIter) First() bool   { i.pos = 0; return len(i.kv) > 0 }
func (i *mapIter) Key() []byte   { return []byte(i.kv[i.pos].K) }
func (i *mapIter) Value() []byte { return []byte(i.kv[i.pos].V) }
func (i *mapIter) Release()      {}
func (i *mapIter) Error() error  { return nil }

type execCtx struct {
	store   *mapStore
	overlay *overlaydb.OverlayDB
}

var (
	// free list of execution contexts (never released: a sync.Pool would drop the 4 MiB buffers at every GC
	// cycle and re-fault them, which dominated the run time)
	ctxFree = make(chan *execCtx, 256)
	ssOnce  sync.Once
	ss      *ledgerstore.StateStore
)

func getCtx() *execCtx {
	select {
	case c := <-ctxFree:
		return c
	default:
		s := &mapStore{}
		return &execCtx{store: s, overlay: overlaydb.NewOverlayDB(s)}
	}
}

func putCtx(c *execCtx) {
	c.store.m = nil
	select {
	case ctxFree <- c:
	default:
	}
}

// Exec runs tx through StateStore.HandleInvokeTransaction as a one-transaction block and applies the
// write set on success (same contract as polyenv.World.Exec).
func (w *World) Exec(tx *types.Transaction, height, timestamp uint32) (res polyenv.Result) {
	ssOnce.Do(func() { ss = ledgerstore.NewMemStateStore(0) })
	c := getCtx()
	defer putCtx(c)
	c.store.m = w.m
	c.overlay.Reset()
	c.overlay.SetError(nil)
	cache := storage.NewCacheDB(c.overlay)
	block := polyenv.BlockCtx(height, timestamp)
	notify := &event.ExecuteNotify{TxHash: tx.Hash(), State: event.CONTRACT_STATE_FAIL}
	res.Notify = notify
	func() {
		defer func() {
			if x := recover(); x != nil {
				res.Panic = x
				res.Err = fmt.Errorf("panic: %v", x)
			}
		}()
		res.CrossHashes, res.Err = ss.HandleInvokeTransaction(nil, c.overlay, cache, tx, block, notify)
	}()
	if c.overlay.Error() != nil {
		res.Err = fmt.Errorf("overlay error: %v", c.overlay.Error())
		return
	}
	res.OK = res.Err == nil
	c.overlay.GetWriteSet().ForEach(func(k, v []byte) {
		res.WriteSet = append(res.WriteSet, polyenv.KV{K: string(k), V: string(v)})
	})
	if res.Panic != nil {
		return
	}
	for _, kv := range res.WriteSet {
		if len(kv.V) == 0 {
			delete(w.m, kv.K)
		} else {
			w.m[kv.K] = kv.V
		}
	}
	return
}

// Genesis executes the genesis block's transactions.
func (w *World) Genesis(vals []*polyenv.Acct) {
	g := polyenv.GenesisBlock(vals)
	for _, tx := range g.Transactions {
		r := w.Exec(tx, 0, g.Header.Timestamp)
		if !r.OK {
			panic(fmt.Sprintf("genesis tx failed: %v", r.Err))
		}
	}
}

// Op is one recorded transaction (used by SelfCheck).
type Op struct {
	Tx     *types.Transaction
	Height uint32
}

// SelfCheck replays genesis + ops on a polyenv.World (leveldb backed) and on a gov.World and reports
// the first difference in acceptance or in the resulting snapshot ("" = identical).
func SelfCheck(vals []*polyenv.Acct, ops []Op) string {
	a := polyenv.NewWorld()
	defer a.Close()
	a.Genesis(vals)
	b := NewWorld()
	b.Genesis(vals)
	for i, op := range ops {
		ra := a.Exec(op.Tx, op.Height, Time)
		rb := b.Exec(op.Tx, op.Height, Time)
		if ra.OK != rb.OK || (ra.Panic != nil) != (rb.Panic != nil) {
			return fmt.Sprintf("op %d: acceptance differs: %v / %v", i, ra.Err, rb.Err)
		}
		if a.Dump().String() != b.Dump().String() {
			return fmt.Sprintf("op %d: snapshots differ", i)
		}
	}
	return ""
}

var _ = common.ADDRESS_EMPTY
