package gov

import (
	"fmt"

	"github.com/polynetwork/poly/common"
	"github.com/polynetwork/poly/native/service/governance/neo3_state_manager"
	"github.com/polynetwork/poly/native/service/governance/node_manager"
	"github.com/polynetwork/poly/native/service/governance/relayer_manager"
	"github.com/polynetwork/poly/native/service/governance/side_chain_manager"
	"verif.local/engine/polyenv"
)

// Env: named deterministic accounts + one-call wrappers for every governance transaction (C33 / C35).
type Env struct {
	N    int
	Vals []*polyenv.Acct
	Acct map[string]*polyenv.Acct
}

func NewEnv(n int) *Env {
	e := &Env{N: n, Vals: polyenv.Keys(n), Acct: map[string]*polyenv.Acct{}}
	for i, v := range e.Vals {
		e.Acct[fmt.Sprintf("V%d", i+1)] = v
	}
	for name, idx := range map[string]int{"X": 30, "c1": 40, "o1": 50, "o2": 51, "ra": 60, "rb": 61} {
		e.Acct[name] = polyenv.Key(idx)
	}
	return e
}

func (e *Env) A(name string) *polyenv.Acct { return e.Acct[name] }
func (e *Env) V(i int) string              { return fmt.Sprintf("V%d", i) }
func (e *Env) Q() int                      { return Quorum(e.N) }

// SC builds the side-chain request content used for (owner, chain id, tag).
func (e *Env) SC(owner string, id uint64, tag string) SideChainRec {
	return SideChainRec{Owner: e.A(owner).Addr, ChainID: id, Router: 2, Name: fmt.Sprintf("chain%d-%s-%s", id, owner, tag),
		BlocksToWait: 1, CCMC: []byte("ccmc-" + owner + "-" + tag), Extra: []byte("extra-" + tag)}
}

// side chain manager ------------------------------------------------------------------------------
// claimed = the address written into the request; signer = who signs the transaction.
func (e *Env) RegisterSideChain(w Execer, claimed, signer string, id uint64, tag string, h uint32) polyenv.Result {
	return Call(w, SCM, side_chain_manager.REGISTER_SIDE_CHAIN, SideChainArgs(e.SC(claimed, id, tag)), e.A(signer), h)
}
func (e *Env) UpdateSideChain(w Execer, claimed, signer string, id uint64, tag string, h uint32) polyenv.Result {
	return Call(w, SCM, side_chain_manager.UPDATE_SIDE_CHAIN, SideChainArgs(e.SC(claimed, id, tag)), e.A(signer), h)
}
func (e *Env) QuitSideChain(w Execer, claimed, signer string, id uint64, h uint32) polyenv.Result {
	return Call(w, SCM, side_chain_manager.QUIT_SIDE_CHAIN, ChainID(id, e.A(claimed).Addr), e.A(signer), h)
}
func (e *Env) ApproveSC(w Execer, method string, id uint64, who string, h uint32) polyenv.Result {
	return Call(w, SCM, method, ChainID(id, e.A(who).Addr), e.A(who), h)
}

// relayer manager ---------------------------------------------------------------------------------
func (e *Env) addrs(names []string) []common.Address {
	var o []common.Address
	for _, n := range names {
		o = append(o, e.A(n).Addr)
	}
	return o
}
func (e *Env) RegisterRelayer(w Execer, list []string, by string, h uint32) polyenv.Result {
	return Call(w, RM, relayer_manager.REGISTER_RELAYER, RelayerList(e.addrs(list), e.A(by).Addr), e.A(by), h)
}
func (e *Env) RemoveRelayer(w Execer, list []string, by string, h uint32) polyenv.Result {
	return Call(w, RM, relayer_manager.REMOVE_RELAYER, RelayerList(e.addrs(list), e.A(by).Addr), e.A(by), h)
}
func (e *Env) ApproveRelayer(w Execer, method string, id uint64, who string, h uint32) polyenv.Result {
	return Call(w, RM, method, ApproveRelayer(id, e.A(who).Addr), e.A(who), h)
}

// neo3 state manager ------------------------------------------------------------------------------
func (e *Env) RegisterSV(w Execer, list []string, by string, h uint32) polyenv.Result {
	return Call(w, SVM, neo3_state_manager.REGISTER_STATE_VALIDATOR, SVList(list, e.A(by).Addr), e.A(by), h)
}
func (e *Env) RemoveSV(w Execer, list []string, by string, h uint32) polyenv.Result {
	return Call(w, SVM, neo3_state_manager.REMOVE_STATE_VALIDATOR, SVList(list, e.A(by).Addr), e.A(by), h)
}
func (e *Env) ApproveSV(w Execer, method string, id uint64, who string, h uint32) polyenv.Result {
	return Call(w, SVM, method, ApproveSV(id, e.A(who).Addr), e.A(who), h)
}

// node manager ------------------------------------------------------------------------------------
func (e *Env) RegisterCandidate(w Execer, peer, owner string, h uint32) polyenv.Result {
	return Call(w, NM, node_manager.REGISTER_CANDIDATE, RegisterPeer(e.A(peer).PubHex, e.A(owner).Addr), e.A(owner), h)
}
func (e *Env) ApproveCandidate(w Execer, peer, who string, h uint32) polyenv.Result {
	return Call(w, NM, node_manager.APPROVE_CANDIDATE, Peer(e.A(peer).PubHex, e.A(who).Addr), e.A(who), h)
}
func (e *Env) QuitNode(w Execer, peer, owner string, h uint32) polyenv.Result {
	return Call(w, NM, node_manager.QUIT_NODE, Peer(e.A(peer).PubHex, e.A(owner).Addr), e.A(owner), h)
}
func (e *Env) CommitDpos(w Execer, h uint32) polyenv.Result {
	return CallOperator(w, NM, node_manager.COMMIT_DPOS, nil, e.Vals, h)
}

// Counter reads a little-endian uint64 counter record (0 if absent).
func Counter(m map[string]string, key string) uint64 {
	raw, ok := m[key]
	if !ok {
		return 0
	}
	b := Item(raw)
	var v uint64
	for i := 7; i >= 0; i-- {
		v = v<<8 | uint64(b[i])
	}
	return v
}

func KeyRelayerApplyID() string  { return K(RM, []byte(relayer_manager.APPLY_ID)) }
func KeyRelayerRemoveID() string { return K(RM, []byte(relayer_manager.REMOVE_ID)) }
func KeySVApplyID() string       { return K(SVM, []byte(neo3_state_manager.STATE_VALIDATOR_APPLY_ID)) }
func KeySVRemoveID() string      { return K(SVM, []byte(neo3_state_manager.STATE_VALIDATOR_REMOVE_ID)) }
