// Package gov holds the helpers shared by the governance drivers C32 / C33 / C35: deterministic
// accounts, argument builders for every governance method, raw storage keys of the records the
// oracles look at, and the "restore snapshot + one real transaction + snapshot" step.
// It contains no property logic.
package gov

import (
	"bytes"
	"crypto/sha256"
	"encoding/hex"
	"sort"
	"strings"

	"github.com/polynetwork/poly/common"
	cstates "github.com/polynetwork/poly/core/states"
	"github.com/polynetwork/poly/core/types"
	"github.com/polynetwork/poly/native/service/governance/neo3_state_manager"
	"github.com/polynetwork/poly/native/service/governance/node_manager"
	"github.com/polynetwork/poly/native/service/governance/relayer_manager"
	"github.com/polynetwork/poly/native/service/governance/side_chain_manager"
	"github.com/polynetwork/poly/native/service/utils"
	"verif.local/engine/polyenv"
)

var (
	NM  = utils.NodeManagerContractAddress
	SCM = utils.SideChainManagerContractAddress
	RM  = utils.RelayerManagerContractAddress
	SVM = utils.Neo3StateManagerContractAddress
)

const Time = 1000 // block timestamp of every transaction (no time dependence in these contracts)

// Call = one real transaction (single signer) executed as a one-transaction block on w.
// The nonce is constant: equal calls are equal transactions, so snapshots are history independent.
func Call(w Execer, contract common.Address, method string, args []byte, signer *polyenv.Acct, height uint32) polyenv.Result {
	return w.Exec(polyenv.Tx(contract, method, args, 0, polyenv.Single(signer)), height, Time)
}

// CallOperator = transaction carrying the m-of-n operator entry of the given consensus validators.
func CallOperator(w Execer, contract common.Address, method string, args []byte, vals []*polyenv.Acct, height uint32) polyenv.Result {
	return w.Exec(polyenv.Tx(contract, method, args, 0, polyenv.Multi(vals)), height, Time)
}

// Execer is what polyenv.World and gov.World have in common.
type Execer interface {
	Exec(tx *types.Transaction, height, timestamp uint32) polyenv.Result
	Dump() polyenv.Dump
}

// Recorder wraps a world and remembers every transaction (for SelfCheck).
type Recorder struct {
	W   Execer
	Ops []Op
}

func (r *Recorder) Exec(tx *types.Transaction, height, timestamp uint32) polyenv.Result {
	r.Ops = append(r.Ops, Op{Tx: tx, Height: height})
	return r.W.Exec(tx, height, timestamp)
}
func (r *Recorder) Dump() polyenv.Dump { return r.W.Dump() }

// ---------------------------------------------------------------------------------------------
// argument builders

func sink(f func(s *common.ZeroCopySink)) []byte {
	s := common.NewZeroCopySink(nil)
	f(s)
	return s.Bytes()
}

func RegisterPeer(pubHex string, owner common.Address) []byte {
	return sink(func(s *common.ZeroCopySink) {
		(&node_manager.RegisterPeerParam{PeerPubkey: pubHex, Address: owner}).Serialization(s)
	})
}
func Peer(pubHex string, sender common.Address) []byte {
	return sink(func(s *common.ZeroCopySink) {
		(&node_manager.PeerParam{PeerPubkey: pubHex, Address: sender}).Serialization(s)
	})
}
func PeerList(pubs []string, sender common.Address) []byte {
	return sink(func(s *common.ZeroCopySink) {
		(&node_manager.PeerListParam{PeerPubkeyList: pubs, Address: sender}).Serialization(s)
	})
}

// SideChainRec is the request content used by the drivers.
type SideChainRec struct {
	Owner        common.Address
	ChainID      uint64
	Router       uint64
	Name         string
	BlocksToWait uint64
	CCMC         []byte
	Extra        []byte
}

func SideChainArgs(r SideChainRec) []byte {
	return sink(func(s *common.ZeroCopySink) {
		_ = (&side_chain_manager.RegisterSideChainParam{Address: r.Owner, ChainId: r.ChainID, Router: r.Router, Name: r.Name,
			BlocksToWait: r.BlocksToWait, CCMCAddress: r.CCMC, ExtraInfo: r.Extra}).Serialization(s)
	})
}
func ChainID(id uint64, sender common.Address) []byte {
	return sink(func(s *common.ZeroCopySink) {
		(&side_chain_manager.ChainidParam{Chainid: id, Address: sender}).Serialization(s)
	})
}
func RelayerList(list []common.Address, sender common.Address) []byte {
	return sink(func(s *common.ZeroCopySink) {
		(&relayer_manager.RelayerListParam{AddressList: list, Address: sender}).Serialization(s)
	})
}
func ApproveRelayer(id uint64, sender common.Address) []byte {
	return sink(func(s *common.ZeroCopySink) {
		(&relayer_manager.ApproveRelayerParam{ID: id, Address: sender}).Serialization(s)
	})
}
func SVList(list []string, sender common.Address) []byte {
	return sink(func(s *common.ZeroCopySink) {
		(&neo3_state_manager.StateValidatorListParam{StateValidators: list, Address: sender}).Serialization(s)
	})
}
func ApproveSV(id uint64, sender common.Address) []byte {
	return sink(func(s *common.ZeroCopySink) {
		(&neo3_state_manager.ApproveStateValidatorParam{ID: id, Address: sender}).Serialization(s)
	})
}

// ---------------------------------------------------------------------------------------------
// raw store keys (as they appear in polyenv.Dump)

func K(contract common.Address, parts ...[]byte) string {
	return polyenv.StorageKey(utils.ConcatKey(contract, parts...))
}
func U64(v uint64) []byte { return utils.GetUint64Bytes(v) }
func U32(v uint32) []byte { return utils.GetUint32Bytes(v) }
func Hex(s string) []byte {
	b, err := hex.DecodeString(s)
	if err != nil {
		panic(err)
	}
	return b
}

var signPrefix = K(NM, []byte(node_manager.CONSENSUS_SIGNS))

// IsSignKey: approval bookkeeping record of CheckConsensusSigns (any method / request).
func IsSignKey(k string) bool { return strings.HasPrefix(k, signPrefix) }

// SignKey is the bookkeeping key of (method, request input) as documented in the property anchor.
func SignKey(method string, input []byte) string {
	h := sha256.Sum256(append([]byte(method), input...))
	return K(NM, []byte(node_manager.CONSENSUS_SIGNS), h[:])
}

func KeyPeerApply(pubHex string) string { return K(NM, []byte(node_manager.PEER_APPLY), Hex(pubHex)) }
func KeyPeerIndex(pubHex string) string { return K(NM, []byte(node_manager.PEER_INDEX), Hex(pubHex)) }
func KeyBlack(pubHex string) string     { return K(NM, []byte(node_manager.BLACK_LIST), Hex(pubHex)) }
func KeyCandidateIndex() string         { return K(NM, []byte(node_manager.CANDIDITE_INDEX)) }
func KeyGovView() string                { return K(NM, []byte(node_manager.GOVERNANCE_VIEW)) }
func KeyPeerPool(view uint32) string    { return K(NM, []byte(node_manager.PEER_POOL), U32(view)) }
func IsPeerPoolKey(k string) bool       { return strings.HasPrefix(k, K(NM, []byte(node_manager.PEER_POOL))) }
func KeySideChain(id uint64) string     { return K(SCM, []byte(side_chain_manager.SIDE_CHAIN), U64(id)) }
func KeySideChainApply(id uint64) string {
	return K(SCM, []byte(side_chain_manager.SIDE_CHAIN_APPLY), U64(id))
}
func KeySideChainUpdate(id uint64) string {
	return K(SCM, []byte(side_chain_manager.UPDATE_SIDE_CHAIN_REQUEST), U64(id))
}
func KeySideChainQuit(id uint64) string {
	return K(SCM, []byte(side_chain_manager.QUIT_SIDE_CHAIN_REQUEST), U64(id))
}
func KeyRelayer(a common.Address) string { return K(RM, []byte(relayer_manager.RELAYER), a[:]) }
func KeyRelayerApply(id uint64) string   { return K(RM, []byte(relayer_manager.RELAYER_APPLY), U64(id)) }
func KeyRelayerRemove(id uint64) string {
	return K(RM, []byte(relayer_manager.RELAYER_REMOVE), U64(id))
}
func KeySV() string { return K(SVM, []byte(neo3_state_manager.STATE_VALIDATOR)) }
func KeySVApply(id uint64) string {
	return K(SVM, []byte(neo3_state_manager.STATE_VALIDATOR_APPLY), U64(id))
}
func KeySVRemove(id uint64) string {
	return K(SVM, []byte(neo3_state_manager.STATE_VALIDATOR_REMOVE), U64(id))
}

// ---------------------------------------------------------------------------------------------
// observations (decoding stored records with the repository's own decoders; used to cross-check the
// reference model's idea of the validator set and to print readable artefacts, never as the oracle)

// Item strips the StorageItem wrapper.
func Item(raw string) []byte {
	if raw == "" {
		return nil
	}
	v, err := cstates.GetValueFromRawStorageItem([]byte(raw))
	if err != nil {
		panic(err)
	}
	return v
}

// Pool returns the current governance view and pubkey-hex -> status of the pool of that view.
func Pool(m map[string]string) (uint32, map[string]int) {
	gv := new(node_manager.GovernanceView)
	if err := gv.Deserialization(common.NewZeroCopySource(Item(m[KeyGovView()]))); err != nil {
		panic(err)
	}
	pm := &node_manager.PeerPoolMap{PeerPoolMap: map[string]*node_manager.PeerPoolItem{}}
	if err := pm.Deserialization(common.NewZeroCopySource(Item(m[KeyPeerPool(gv.View)]))); err != nil {
		panic(err)
	}
	out := map[string]int{}
	for k, v := range pm.PeerPoolMap {
		out[k] = int(v.Status)
	}
	return gv.View, out
}

// SVs decodes the stored state-validator list.
func SVs(m map[string]string) []string {
	raw, ok := m[KeySV()]
	if !ok {
		return nil
	}
	l, err := neo3_state_manager.DeserializeStringArray(Item(raw))
	if err != nil {
		panic(err)
	}
	return l
}

// Changed lists the keys whose value differs between two snapshots, sorted.
func Changed(a, b polyenv.Dump) []string {
	d := a.Diff(b)
	out := make([]string, 0, len(d))
	for k := range d {
		out = append(out, k)
	}
	sort.Strings(out)
	return out
}

// Notified reports whether the transaction's event list contains an event whose first state is name.
func Notified(res polyenv.Result, name string) bool {
	if res.Notify == nil {
		return false
	}
	for _, n := range res.Notify.Notify {
		if st, ok := n.States.([]interface{}); ok && len(st) > 0 {
			if s, ok := st[0].(string); ok && s == name {
				return true
			}
		}
	}
	return false
}

// KeyName renders a raw store key readably: contract byte + ascii prefix + hex remainder.
func KeyName(k string) string {
	b := []byte(k)
	if len(b) < 21 {
		return hex.EncodeToString(b)
	}
	rest := b[21:]
	i := 0
	for i < len(rest) && ((rest[i] >= 'a' && rest[i] <= 'z') || (rest[i] >= 'A' && rest[i] <= 'Z')) {
		i++
	}
	var o bytes.Buffer
	o.WriteString(hex.EncodeToString(b[20:21]))
	o.WriteByte(':')
	o.Write(rest[:i])
	o.WriteByte(':')
	o.WriteString(hex.EncodeToString(rest[i:]))
	return o.String()
}

// Quorum is the reference ceil(2n/3): the least k with 3k >= 2n.
func Quorum(n int) int {
	k := 0
	for 3*k < 2*n {
		k++
	}
	return k
}
