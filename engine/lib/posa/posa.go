// Package posa: synthesis of proof-of-staked-authority source chains for the header_sync routers
// bsc / bytom (parlia), heco / hsc / pixiechain (congress), msc (clique) and polygon bor: deterministic
// secp256k1 validator keys, header construction, REAL seals (crypto.Sign over the router's seal hash, computed
// here independently of the router's SealHash), genesis parameters, side-chain registration with ExtraInfo
// and decoding of what the router stored. Used by the C29 (seal rules) and C23 (deposit proofs) drivers.
package posa

import (
	"bytes"
	"crypto/ecdsa"
	"crypto/sha256"
	"encoding/json"
	"fmt"
	"math/big"
	"sort"

	ecommon "github.com/ethereum/go-ethereum/common"
	"github.com/ethereum/go-ethereum/core/types"
	"github.com/ethereum/go-ethereum/crypto"
	"github.com/ethereum/go-ethereum/rlp"
	"github.com/polynetwork/poly/common"
	cstates "github.com/polynetwork/poly/core/states"
	"github.com/polynetwork/poly/native"
	"github.com/polynetwork/poly/native/service/governance/side_chain_manager"
	"github.com/polynetwork/poly/native/service/header_sync/bsc"
	"github.com/polynetwork/poly/native/service/header_sync/bytom"
	"github.com/polynetwork/poly/native/service/header_sync/eth"
	"github.com/polynetwork/poly/native/service/header_sync/heco"
	"github.com/polynetwork/poly/native/service/header_sync/hsc"
	"github.com/polynetwork/poly/native/service/header_sync/msc"
	"github.com/polynetwork/poly/native/service/header_sync/pixiechain"
	"github.com/polynetwork/poly/native/service/header_sync/polygon"
	"github.com/polynetwork/poly/native/service/utils"
	"verif.local/engine/polyenv"
)

// ---------------------------------------------------------------------------------------------
// keys

type Key struct {
	Priv *ecdsa.PrivateKey
	Addr ecommon.Address
}

func KeyOf(i int) Key {
	h := sha256.Sum256([]byte(fmt.Sprintf("posa-secp-key-%d", i)))
	k, err := crypto.ToECDSA(h[:])
	if err != nil {
		panic(err)
	}
	return Key{k, crypto.PubkeyToAddress(k.PublicKey)}
}

const (
	Vanity   = 32
	SealLen  = 65
	PastTime = 1_600_000_000 // header timestamps start here: far in the past, the routers' time.Now() test is constant
)

var UncleHash = types.CalcUncleHash(nil)

// ---------------------------------------------------------------------------------------------
// routers

type Family int

const (
	Parlia   Family = iota // bsc, bytom: list-carrying header's set takes effect after len(old)/2 further blocks
	Congress               // heco, hsc, pixiechain: takes effect with the next block
	Clique                 // msc: signer votes, checkpoint every Epoch blocks
	Bor                    // polygon bor: sprint-end header lists the producers of the next sprint
)

type Router struct {
	Name        string
	ID          uint64
	Family      Family
	SealChainID *big.Int // non-nil: the seal hash commits to the chain id first (parlia)
	Period      uint64   // enforced minimum timestamp distance to the parent (0: not enforced)
	GasDiv      uint64   // enforced |gasLimit - parent.gasLimit| < parent.gasLimit/GasDiv (0: not enforced)
	GasUsedRule bool     // enforced gasUsed <= gasLimit
	TypesHeader bool     // headers travel as go-ethereum types.Header JSON (else poly eth.Header JSON)
	Epoch       uint64   // msc: ExtraInfo.Epoch; bor: ExtraInfo.Sprint; others: not known to the router
	ExtraInfo   []byte
	// bor only
	BorProducerDelay, BorBackupMultiplier uint64

	CanonHeight func(ns *native.NativeService, chain uint64) (uint64, error)
	CanonHash   func(ns *native.NativeService, chain uint64, height uint64) (string, error) // "" = no entry
}

// posaExtraInfo is the side chain's ExtraInfo for the parlia / congress routers. The member Epoch is not known to the
// routers as they are (unknown JSON members are ignored); it is there so that a router patched to check the height
// of list-carrying headers (proposed fix of the C29 finding) can be driven by the same harness.
func posaExtraInfo(chainID int64, period, epoch uint64) []byte {
	return mustJSON(map[string]any{"ChainID": chainID, "Period": period, "Epoch": epoch})
}

// WithEpoch returns a copy of the router whose ExtraInfo announces the given epoch length (parlia / congress only).
func (rt *Router) WithEpoch(epoch uint64) *Router {
	c := *rt
	if rt.Family == Parlia || rt.Family == Congress {
		id := int64(0)
		if rt.SealChainID != nil {
			id = rt.SealChainID.Int64()
		} else {
			id = map[string]int64{"heco": 128, "hsc": 70, "pixiechain": 6626}[rt.Name]
		}
		c.ExtraInfo = posaExtraInfo(id, rt.Period, epoch)
	}
	return &c
}

func mustJSON(v any) []byte {
	b, err := json.Marshal(v)
	if err != nil {
		panic(err)
	}
	return b
}

// Routers returns the seven PoSA routers, msc configured with the given epoch and bor with the given sprint length.
func Routers(epoch, sprint uint64) []*Router {
	hx := func(h ecommon.Hash) string { return ecommon.Bytes2Hex(h[:]) }
	return []*Router{
		{Name: "bsc", ID: utils.BSC_ROUTER, Family: Parlia, SealChainID: big.NewInt(56), GasDiv: 256, GasUsedRule: true, TypesHeader: true,
			ExtraInfo:   posaExtraInfo(56, 0, epoch),
			CanonHeight: bsc.GetCanonicalHeight,
			CanonHash: func(ns *native.NativeService, c, h uint64) (string, error) {
				x, err := bsc.GetCanonicalHeader(ns, c, h)
				if err != nil || x == nil {
					return "", err
				}
				return hx(x.Header.Hash()), nil
			}},
		{Name: "bytom", ID: utils.BYTOM_ROUTER, Family: Parlia, SealChainID: big.NewInt(188), GasDiv: 256, GasUsedRule: true, TypesHeader: true,
			ExtraInfo:   posaExtraInfo(188, 0, epoch),
			CanonHeight: bytom.GetCanonicalHeight,
			CanonHash: func(ns *native.NativeService, c, h uint64) (string, error) {
				x, err := bytom.GetCanonicalHeader(ns, c, h)
				if err != nil || x == nil {
					return "", err
				}
				return hx(x.Header.Hash()), nil
			}},
		{Name: "heco", ID: utils.HECO_ROUTER, Family: Congress, Period: 3, GasDiv: 1024, GasUsedRule: true,
			ExtraInfo:   posaExtraInfo(128, 3, epoch),
			CanonHeight: heco.GetCanonicalHeight,
			CanonHash: func(ns *native.NativeService, c, h uint64) (string, error) {
				x, err := heco.GetCanonicalHeader(ns, c, h)
				if err != nil || x == nil {
					return "", err
				}
				return hx(x.Header.Hash()), nil
			}},
		{Name: "hsc", ID: utils.HSC_ROUTER, Family: Congress, Period: 3, GasUsedRule: true,
			ExtraInfo:   posaExtraInfo(70, 3, epoch),
			CanonHeight: hsc.GetCanonicalHeight,
			CanonHash: func(ns *native.NativeService, c, h uint64) (string, error) {
				x, err := hsc.GetCanonicalHeader(ns, c, h)
				if err != nil || x == nil {
					return "", err
				}
				return hx(x.Header.Hash()), nil
			}},
		{Name: "pixiechain", ID: utils.PIXIECHAIN_ROUTER, Family: Congress, Period: 3, GasDiv: 1024, GasUsedRule: true,
			ExtraInfo:   posaExtraInfo(6626, 3, epoch),
			CanonHeight: pixiechain.GetCanonicalHeight,
			CanonHash: func(ns *native.NativeService, c, h uint64) (string, error) {
				x, err := pixiechain.GetCanonicalHeader(ns, c, h)
				if err != nil || x == nil {
					return "", err
				}
				return hx(x.Header.Hash()), nil
			}},
		{Name: "msc", ID: utils.MSC_ROUTER, Family: Clique, Period: 3, TypesHeader: true, Epoch: epoch,
			ExtraInfo:   mustJSON(msc.ExtraInfo{ChainID: big.NewInt(77), Period: 3, Epoch: epoch}),
			CanonHeight: msc.GetCanonicalHeight,
			CanonHash: func(ns *native.NativeService, c, h uint64) (string, error) {
				x, err := msc.GetCanonicalHeader(ns, c, h)
				if err != nil || x == nil {
					return "", err
				}
				return hx(x.Header.Hash()), nil
			}},
		{Name: "polygon-bor", ID: utils.POLYGON_BOR_ROUTER, Family: Bor, Period: 2, Epoch: sprint, BorProducerDelay: 4, BorBackupMultiplier: 2,
			ExtraInfo:   mustJSON(polygon.ExtraInfo{Sprint: sprint, Period: 2, ProducerDelay: 4, BackupMultiplier: 2, HeimdallPolyChainID: 0}),
			CanonHeight: polygon.GetCanonicalHeight,
			CanonHash: func(ns *native.NativeService, c, h uint64) (string, error) {
				x, err := polygon.GetCanonicalHeader(ns, c, h)
				if err != nil || x == nil {
					return "", err
				}
				return hx(x.HeaderWithOptionalSnap.Header.Hash()), nil
			}},
	}
}

func RouterByName(rs []*Router, n string) *Router {
	for _, r := range rs {
		if r.Name == n {
			return r
		}
	}
	return nil
}

// ---------------------------------------------------------------------------------------------
// headers

// Extra lays out vanity ++ list ++ room for the seal.
func Extra(vanityLen int, list []byte) []byte {
	e := make([]byte, vanityLen, vanityLen+len(list)+SealLen)
	copy(e, "verif")
	e = append(e, list...)
	return append(e, make([]byte, SealLen)...)
}

// AddrList concatenates addresses (parlia / congress / clique validator list).
func AddrList(a []ecommon.Address) []byte {
	var b []byte
	for _, x := range a {
		b = append(b, x[:]...)
	}
	return b
}

// BorList is the bor sprint-end validator list: address ++ 20-byte big-endian power, sorted by address.
func BorList(a []ecommon.Address, power int64) []byte {
	s := append([]ecommon.Address{}, a...)
	sort.Slice(s, func(i, j int) bool { return bytes.Compare(s[i][:], s[j][:]) < 0 })
	var b []byte
	for _, x := range s {
		b = append(b, x[:]...)
		p := make([]byte, 20)
		pb := big.NewInt(power).Bytes()
		copy(p[20-len(pb):], pb)
		b = append(b, p...)
	}
	return b
}

// SealHash is the hash the validator signs: Keccak256(RLP([chainID?, header fields with the seal cut off])).
// Written from the chains' specifications (parlia prefixes the chain id; congress, clique and bor do not).
func (rt *Router) SealHash(h *eth.Header) ecommon.Hash {
	var enc []interface{}
	if rt.SealChainID != nil {
		enc = append(enc, rt.SealChainID)
	}
	enc = append(enc, h.ParentHash, h.UncleHash, h.Coinbase, h.Root, h.TxHash, h.ReceiptHash, h.Bloom, h.Difficulty, h.Number,
		h.GasLimit, h.GasUsed, h.Time, h.Extra[:len(h.Extra)-SealLen], h.MixDigest, h.Nonce)
	if rt.Family == Bor && h.BaseFee != nil {
		enc = append(enc, h.BaseFee)
	}
	b, err := rlp.EncodeToBytes(enc)
	if err != nil {
		panic(err)
	}
	return crypto.Keccak256Hash(b)
}

// Sign writes k's seal into the last 65 bytes of h.Extra (which must have room for it).
func (rt *Router) Sign(h *eth.Header, k Key) {
	sig, err := crypto.Sign(rt.SealHash(h).Bytes(), k.Priv)
	if err != nil {
		panic(err)
	}
	copy(h.Extra[len(h.Extra)-SealLen:], sig)
}

func toTypes(h *eth.Header) *types.Header {
	return &types.Header{ParentHash: h.ParentHash, UncleHash: h.UncleHash, Coinbase: h.Coinbase, Root: h.Root, TxHash: h.TxHash,
		ReceiptHash: h.ReceiptHash, Bloom: h.Bloom, Difficulty: h.Difficulty, Number: h.Number, GasLimit: h.GasLimit, GasUsed: h.GasUsed,
		Time: h.Time, Extra: h.Extra, MixDigest: h.MixDigest, Nonce: h.Nonce}
}

// Hash is the header hash as the router computes it.
func (rt *Router) Hash(h *eth.Header) ecommon.Hash {
	if rt.TypesHeader {
		return toTypes(h).Hash()
	}
	return h.Hash()
}

// Raw is one element of SyncBlockHeaderParam.Headers.
func (rt *Router) Raw(h *eth.Header) []byte {
	switch {
	case rt.Family == Bor:
		return mustJSON(polygon.HeaderWithOptionalProof{Header: *h})
	case rt.TypesHeader:
		return mustJSON(toTypes(h))
	default:
		return mustJSON(*h)
	}
}

// GenesisRaw is SyncGenesisHeaderParam.GenesisHeader: g carries the validator list `vals` in its extra (already laid
// out and sealed by the caller); prevVals / prevHeight is the older set the parlia/congress trust root also records.
// For bor the snapshot's validator set is `vals` with equal power and the given proposer.
func (rt *Router) GenesisRaw(g *eth.Header, vals []ecommon.Address, prevVals []ecommon.Address, prevHeight uint64, borProposer ecommon.Address) []byte {
	ph := new(big.Int).SetUint64(prevHeight)
	switch rt.Name {
	case "bsc":
		return mustJSON(bsc.GenesisHeader{Header: *toTypes(g), PrevValidators: []bsc.HeightAndValidators{{Height: ph, Validators: prevVals}}})
	case "bytom":
		return mustJSON(bytom.GenesisHeader{Header: *toTypes(g), PrevValidators: []bytom.HeightAndValidators{{Height: ph, Validators: prevVals}}})
	case "heco":
		return mustJSON(heco.GenesisHeader{Header: *g, PrevValidators: []heco.HeightAndValidators{{Height: ph, Validators: prevVals}}})
	case "hsc":
		return mustJSON(hsc.GenesisHeader{Header: *g, PrevValidators: []hsc.HeightAndValidators{{Height: ph, Validators: prevVals}}})
	case "pixiechain":
		return mustJSON(pixiechain.GenesisHeader{Header: *g, PrevValidators: []pixiechain.HeightAndValidators{{Height: ph, Validators: prevVals}}})
	case "msc":
		return mustJSON(toTypes(g))
	case "polygon-bor":
		s := append([]ecommon.Address{}, vals...)
		sort.Slice(s, func(i, j int) bool { return bytes.Compare(s[i][:], s[j][:]) < 0 })
		vs := &polygon.ValidatorSet{}
		for i, a := range s {
			v := &polygon.Validator{ID: uint64(i + 1), Address: a, VotingPower: 10}
			vs.Validators = append(vs.Validators, v)
			if a == borProposer {
				vs.Proposer = v
			}
		}
		return mustJSON(polygon.HeaderWithOptionalSnap{Header: *g, Snapshot: &polygon.Snapshot{Hash: g.Hash(), ValidatorSet: vs}})
	}
	panic("unknown router " + rt.Name)
}

// StoredHeader is what the router keeps per header hash.
type StoredHeader struct {
	Header      *eth.Header
	TD          *big.Int
	BorProposer *ecommon.Address // bor: proposer of the snapshot stored WITH this header (sprint starts / genesis), else nil
	BorSnapRef  *ecommon.Hash    // bor: hash of the header holding the snapshot in force
}

// DecodeStored decodes the raw store value (storage item) found under HEADER_INDEX ++ chain ++ hash.
func (rt *Router) DecodeStored(raw []byte) (*StoredHeader, error) {
	v, err := cstates.GetValueFromRawStorageItem(raw)
	if err != nil {
		return nil, err
	}
	switch rt.Name {
	case "bsc":
		var x bsc.HeaderWithDifficultySum
		if err := json.Unmarshal(v, &x); err != nil {
			return nil, err
		}
		return &StoredHeader{Header: eth.To1559(x.Header), TD: x.DifficultySum}, nil
	case "bytom":
		var x bytom.HeaderWithDifficultySum
		if err := json.Unmarshal(v, &x); err != nil {
			return nil, err
		}
		return &StoredHeader{Header: eth.To1559(x.Header), TD: x.DifficultySum}, nil
	case "msc":
		var x msc.HeaderWithDifficultySum
		if err := json.Unmarshal(v, &x); err != nil {
			return nil, err
		}
		return &StoredHeader{Header: eth.To1559(x.Header), TD: x.DifficultySum}, nil
	case "heco":
		var x heco.HeaderWithDifficultySum
		if err := json.Unmarshal(v, &x); err != nil {
			return nil, err
		}
		return &StoredHeader{Header: x.Header, TD: x.DifficultySum}, nil
	case "hsc":
		var x hsc.HeaderWithDifficultySum
		if err := json.Unmarshal(v, &x); err != nil {
			return nil, err
		}
		return &StoredHeader{Header: x.Header, TD: x.DifficultySum}, nil
	case "pixiechain":
		var x pixiechain.HeaderWithDifficultySum
		if err := json.Unmarshal(v, &x); err != nil {
			return nil, err
		}
		return &StoredHeader{Header: x.Header, TD: x.DifficultySum}, nil
	case "polygon-bor":
		var x polygon.HeaderWithDifficultySum
		if err := json.Unmarshal(v, &x); err != nil {
			return nil, err
		}
		if x.HeaderWithOptionalSnap == nil {
			return nil, fmt.Errorf("no header")
		}
		s := &StoredHeader{Header: &x.HeaderWithOptionalSnap.Header, TD: x.DifficultySum, BorSnapRef: x.SnapParentHash}
		if sn := x.HeaderWithOptionalSnap.Snapshot; sn != nil && sn.ValidatorSet != nil && sn.ValidatorSet.Proposer != nil {
			a := sn.ValidatorSet.Proposer.Address
			s.BorProposer = &a
		}
		return s, nil
	}
	return nil, fmt.Errorf("unknown router")
}

// ---------------------------------------------------------------------------------------------
// registration

var regNonce uint32 = 500000

// Register runs the real registerSideChain + approveRegisterSideChain transactions for a chain of this router.
func (rt *Router) Register(w *polyenv.World, vals []*polyenv.Acct, chainID uint64, blocksToWait uint64, ccmc []byte) error {
	return RegisterChain(w, vals, chainID, rt.ID, rt.Name, blocksToWait, ccmc, rt.ExtraInfo)
}

func RegisterChain(w *polyenv.World, vals []*polyenv.Acct, chainID, router uint64, name string, blocksToWait uint64, ccmc, extraInfo []byte) error {
	owner := polyenv.Key(20)
	p := &side_chain_manager.RegisterSideChainParam{Address: owner.Addr, ChainId: chainID, Router: router, Name: name,
		BlocksToWait: blocksToWait, CCMCAddress: ccmc, ExtraInfo: extraInfo}
	sink := common.NewZeroCopySink(nil)
	if err := p.Serialization(sink); err != nil {
		return err
	}
	regNonce++
	r := w.Exec(polyenv.Tx(utils.SideChainManagerContractAddress, side_chain_manager.REGISTER_SIDE_CHAIN, sink.Bytes(),
		regNonce, polyenv.Single(owner)), 1, 100)
	if !r.OK {
		return fmt.Errorf("registerSideChain(%s): %v", name, r.Err)
	}
	for _, v := range vals {
		cp := &side_chain_manager.ChainidParam{Chainid: chainID, Address: v.Addr}
		s2 := common.NewZeroCopySink(nil)
		cp.Serialization(s2)
		regNonce++
		r := w.Exec(polyenv.Tx(utils.SideChainManagerContractAddress, side_chain_manager.APPROVE_REGISTER_SIDE_CHAIN,
			s2.Bytes(), regNonce, polyenv.Single(v)), 1, 100)
		if !r.OK {
			break // once approved the request is gone
		}
	}
	return nil
}
