// Package hsenv: shared plumbing for header-sync property drivers (C27, C28): a native World with a
// registered side chain (real governance transactions), genesis / block header submission through the
// real header_sync contract entrance, and a read-only NativeService over a World for the contract's
// exported getters.
package hsenv

import (
	"fmt"
	"sort"
	"sync/atomic"

	"github.com/polynetwork/poly/common"
	"github.com/polynetwork/poly/core/store/overlaydb"
	"github.com/polynetwork/poly/core/types"
	"github.com/polynetwork/poly/native"
	"github.com/polynetwork/poly/native/event"
	"github.com/polynetwork/poly/native/service/governance/side_chain_manager"
	hscommon "github.com/polynetwork/poly/native/service/header_sync/common"
	"github.com/polynetwork/poly/native/service/utils"
	"github.com/polynetwork/poly/native/storage"
	"verif.local/engine/polyenv"
)

var nonce uint32 = 1000

func nextNonce() uint32 { return atomic.AddUint32(&nonce, 1) }

// Env is the process-wide governance context (validators) for one network id.
type Env struct {
	Vals []*polyenv.Acct
}

// Setup installs network id + validators (process-global configuration) and the height ledger double.
func Setup(netID uint32) *Env {
	vals := polyenv.Keys(4)
	polyenv.Setup(netID, vals)
	polyenv.InstallHeightLedger()
	return &Env{Vals: vals}
}

// NewWorld returns a world after the real genesis (InitConfig).
func (e *Env) NewWorld() *polyenv.World {
	w := polyenv.NewWorld()
	w.Genesis(e.Vals)
	return w
}

// RegisterSideChain runs the real registerSideChain + approveRegisterSideChain transactions until the
// side chain record exists.
func (e *Env) RegisterSideChain(w *polyenv.World, chainID, router uint64, name string, ccmc []byte) error {
	owner := polyenv.Key(20)
	p := &side_chain_manager.RegisterSideChainParam{Address: owner.Addr, ChainId: chainID, Router: router, Name: name,
		BlocksToWait: 1, CCMCAddress: ccmc}
	sink := common.NewZeroCopySink(nil)
	if err := p.Serialization(sink); err != nil {
		return err
	}
	r := w.Exec(polyenv.Tx(utils.SideChainManagerContractAddress, side_chain_manager.REGISTER_SIDE_CHAIN, sink.Bytes(),
		nextNonce(), polyenv.Single(owner)), 1, 100)
	if !r.OK {
		return fmt.Errorf("registerSideChain: %v", r.Err)
	}
	for _, v := range e.Vals {
		cp := &side_chain_manager.ChainidParam{Chainid: chainID, Address: v.Addr}
		s2 := common.NewZeroCopySink(nil)
		cp.Serialization(s2)
		r := w.Exec(polyenv.Tx(utils.SideChainManagerContractAddress, side_chain_manager.APPROVE_REGISTER_SIDE_CHAIN,
			s2.Bytes(), nextNonce(), polyenv.Single(v)), 1, 100)
		if !r.OK {
			// once approved the request is gone: later approvals fail with "not requested"
			break
		}
	}
	ns := Reader(w)
	sc, err := side_chain_manager.GetSideChain(ns, chainID)
	if err != nil || sc == nil {
		return fmt.Errorf("side chain %d not registered after approvals: %v", chainID, err)
	}
	return nil
}

// GenesisTx builds the syncGenesisHeader transaction (operator-signed).
func (e *Env) GenesisTx(chainID uint64, raw []byte) *types.Transaction {
	p := &hscommon.SyncGenesisHeaderParam{ChainID: chainID, GenesisHeader: raw}
	sink := common.NewZeroCopySink(nil)
	p.Serialization(sink)
	return polyenv.Tx(utils.HeaderSyncContractAddress, hscommon.SYNC_GENESIS_HEADER, sink.Bytes(), nextNonce(), polyenv.Multi(e.Vals))
}

// HeadersTx builds a syncBlockHeader transaction carrying the given raw headers (relayer-signed).
func HeadersTx(chainID uint64, raws ...[]byte) *types.Transaction {
	relayer := polyenv.Key(30)
	p := &hscommon.SyncBlockHeaderParam{ChainID: chainID, Address: relayer.Addr, Headers: raws}
	sink := common.NewZeroCopySink(nil)
	p.Serialization(sink)
	return polyenv.Tx(utils.HeaderSyncContractAddress, hscommon.SYNC_BLOCK_HEADER, sink.Bytes(), nextNonce(), polyenv.Single(relayer))
}

// Reader returns a read-only NativeService over the world's committed state (for exported getters).
func Reader(w *polyenv.World) *native.NativeService {
	cache := storage.NewCacheDB(overlaydb.NewOverlayDB(w.DB))
	tx := &types.Transaction{ChainID: polyenv.ChainID()}
	ns, err := native.NewNativeService(cache, tx, 0, 0, common.Uint256{}, polyenv.ChainID(), nil, true)
	if err != nil {
		panic(err)
	}
	return ns
}

// HSPrefix is the raw-store key prefix of header_sync contract storage: ST_STORAGE ++ contract ++ name ++ chainID.
func HSPrefix(name string, chainID uint64) string {
	return polyenv.StorageKey(utils.ConcatKey(utils.HeaderSyncContractAddress, []byte(name), utils.GetUint64Bytes(chainID)))
}

// HSContractPrefix is the raw-store prefix of all header_sync storage.
func HSContractPrefix() string {
	return polyenv.StorageKey(utils.HeaderSyncContractAddress[:])
}

// ---------------------------------------------------------------------------------------------
// Sim: a reusable World for BFS drivers. polyenv.NewWorldFrom + World.Exec allocate (and zero) two
// in-memory leveldb instances and a 4 MiB overlay per transaction, which dominates the cost of
// small contract calls by two orders of magnitude; Sim keeps one store and one overlay and moves
// between states by key diff. The transaction path is the same production call as World.Exec
// (StateStore.HandleInvokeTransaction, commit of the write set on success only).
type Sim struct {
	W   *polyenv.World
	ov  *overlaydb.OverlayDB
	cur map[string]string
}

func NewSim() *Sim {
	w := polyenv.NewWorld()
	return &Sim{W: w, ov: overlaydb.NewOverlayDB(w.DB), cur: map[string]string{}}
}

func (s *Sim) Close() { s.W.Close() }

// Load makes the store content equal to d.
func (s *Sim) Load(d polyenv.Dump) {
	s.W.DB.NewBatch()
	want := make(map[string]string, len(d))
	for _, kv := range d {
		want[kv.K] = kv.V
		if v, ok := s.cur[kv.K]; !ok || v != kv.V {
			s.W.DB.BatchPut([]byte(kv.K), []byte(kv.V))
		}
	}
	for k := range s.cur {
		if _, ok := want[k]; !ok {
			s.W.DB.BatchDelete([]byte(k))
		}
	}
	if err := s.W.DB.BatchCommit(); err != nil {
		panic(err)
	}
	s.cur = want
}

// Dump is the canonical snapshot of the current content.
func (s *Sim) Dump() polyenv.Dump {
	d := make(polyenv.Dump, 0, len(s.cur))
	for k, v := range s.cur {
		d = append(d, polyenv.KV{K: k, V: v})
	}
	sort.Slice(d, func(i, j int) bool { return d[i].K < d[j].K })
	return d
}

// Exec = polyenv.World.Exec on the reused store/overlay.
func (s *Sim) Exec(tx *types.Transaction, height, timestamp uint32) (res polyenv.Result) {
	s.ov.Reset()
	s.ov.SetError(nil)
	overlay := s.ov
	cache := storage.NewCacheDB(overlay)
	block := polyenv.BlockCtx(height, timestamp)
	notify := &event.ExecuteNotify{TxHash: tx.Hash(), State: event.CONTRACT_STATE_FAIL}
	res.Notify = notify
	func() {
		defer func() {
			if x := recover(); x != nil {
				res.Panic = x
				res.Err = fmt.Errorf("panic: %v", x)
			}
		}()
		res.CrossHashes, res.Err = s.W.SS.HandleInvokeTransaction(nil, overlay, cache, tx, block, notify)
	}()
	if overlay.Error() != nil {
		res.Err = fmt.Errorf("overlay error: %v", overlay.Error())
		return
	}
	res.OK = res.Err == nil
	overlay.GetWriteSet().ForEach(func(k, v []byte) {
		res.WriteSet = append(res.WriteSet, polyenv.KV{K: string(k), V: string(v)})
	})
	if res.Panic != nil {
		return
	}
	s.W.DB.NewBatch()
	overlay.CommitTo()
	if err := s.W.DB.BatchCommit(); err != nil {
		panic(err)
	}
	for _, kv := range res.WriteSet {
		if len(kv.V) == 0 {
			delete(s.cur, kv.K)
		} else {
			s.cur[kv.K] = kv.V
		}
	}
	return
}

// Reader returns a read-only NativeService over the current content (valid until the next Exec/Load).
func (s *Sim) Reader() *native.NativeService {
	s.ov.Reset()
	s.ov.SetError(nil)
	cache := storage.NewCacheDB(s.ov)
	tx := &types.Transaction{ChainID: polyenv.ChainID()}
	ns, err := native.NewNativeService(cache, tx, 0, 0, common.Uint256{}, polyenv.ChainID(), nil, true)
	if err != nil {
		panic(err)
	}
	return ns
}

// Keys returns the raw store keys having the given prefix (unsorted).
func (s *Sim) Keys(prefix string) []string {
	var out []string
	for k := range s.cur {
		if len(k) >= len(prefix) && k[:len(prefix)] == prefix {
			out = append(out, k)
		}
	}
	return out
}

// Raw returns the raw store value of a raw key ("" if absent).
func (s *Sim) Raw(k string) string { return s.cur[k] }
