// Package sched: iterative preemption-bounded DFS over the controlled scheduler (ssync), as in the CHESS idiom.
// run(prefix) must build fresh state, execute ssync.Run(bodies, prefix), evaluate its oracle and return the execution.
// Only usable in builds whose overlay contains the ssync shim (@syncshim / @syncshim-dir / @yieldfuncs directives).
package sched

import (
	"github.com/polynetwork/poly/common/verifhook/ssync"
)

type Stats struct {
	Schedules int  // complete executions
	Points    int  // scheduling decisions taken over all executions
	MaxPoints int  // longest execution
	Deadlocks int
	Panics    int
	Capped    bool // stop() became true before the bound was completed
}

// Explore enumerates every schedule with at most bound preemptions.
func Explore(bound int, stop func() bool, run func(prefix []int) ssync.Exec) (st Stats) {
	var rec func(prefix []int)
	rec = func(prefix []int) {
		if stop != nil && stop() {
			st.Capped = true
			return
		}
		x := run(prefix)
		st.Schedules++
		st.Points += len(x.Points)
		if len(x.Points) > st.MaxPoints {
			st.MaxPoints = len(x.Points)
		}
		if x.Deadlock {
			st.Deadlocks++
		}
		st.Panics += len(x.Panics)
		for i := len(prefix); i < len(x.Points); i++ {
			p := x.Points[i]
			cost := x.PreemptionsBefore(i)
			if p.RunningEnabled {
				cost++
			}
			if cost > bound {
				continue
			}
			for alt := 1; alt < len(p.Enabled); alt++ {
				np := append(append([]int{}, x.Choices[:i]...), alt)
				rec(np)
			}
		}
	}
	rec(nil)
	return
}
