// Package mc is a small explicit-state breadth-first explorer over *real* transition functions.
//
// A state S is whatever the driver needs to re-create the implementation object (usually a
// canonical key/value dump plus the reference-model state). Step must not mutate its argument.
// Every transition counted is one the implementation executed.
package mc

import (
	"crypto/sha256"
	"sync"
)

type Config[S any] struct {
	Init     []S
	Events   func(s S, depth int) []string           // finite event menu in state s
	Step     func(s S, ev string) (next S, ok bool)  // ok=false: event not applicable (not counted)
	Key      func(s S) string                        // canonical form; equal keys must have equal futures
	Check    func(prev S, ev string, next S, path []string) // invariant / reference comparison per transition
	Inv      func(s S, path []string)                // invariant per new state (optional)
	MaxDepth int
	Workers  int
	Stop     func() bool // deadline
}

type Stats struct {
	States      int
	Transitions int
	MaxDepth    int
	Truncated   bool // Stop() fired before the frontier was exhausted
	DepthCapped bool // frontier non-empty at MaxDepth (bounded, not a fixpoint)
	PerDepth    []int
}

type node[S any] struct {
	s    S
	path []string
}

func hkey(s string) [32]byte { return sha256.Sum256([]byte(s)) }

func BFS[S any](c Config[S]) Stats {
	var st Stats
	seen := map[[32]byte]struct{}{}
	var frontier []node[S]
	for _, s := range c.Init {
		k := hkey(c.Key(s))
		if _, ok := seen[k]; ok {
			continue
		}
		seen[k] = struct{}{}
		frontier = append(frontier, node[S]{s, nil})
		if c.Inv != nil {
			c.Inv(s, nil)
		}
	}
	st.States = len(frontier)
	st.PerDepth = append(st.PerDepth, len(frontier))
	workers := c.Workers
	if workers < 1 {
		workers = 1
	}
	for depth := 0; len(frontier) > 0; depth++ {
		if c.MaxDepth > 0 && depth >= c.MaxDepth {
			st.DepthCapped = true
			break
		}
		type succ struct {
			n   node[S]
			key [32]byte
		}
		results := make([][]succ, len(frontier))
		trans := make([]int, len(frontier))
		var wg sync.WaitGroup
		var idx int
		var mu sync.Mutex
		stopped := false
		for w := 0; w < workers; w++ {
			wg.Add(1)
			go func() {
				defer wg.Done()
				for {
					mu.Lock()
					if stopped || idx >= len(frontier) {
						mu.Unlock()
						return
					}
					i := idx
					idx++
					if c.Stop != nil && i%64 == 0 && c.Stop() {
						stopped = true
						mu.Unlock()
						return
					}
					mu.Unlock()
					n := frontier[i]
					for _, e := range c.Events(n.s, depth) {
						nx, ok := c.Step(n.s, e)
						if !ok {
							continue
						}
						trans[i]++
						p := append(append(make([]string, 0, len(n.path)+1), n.path...), e)
						if c.Check != nil {
							c.Check(n.s, e, nx, p)
						}
						results[i] = append(results[i], succ{node[S]{nx, p}, hkey(c.Key(nx))})
					}
				}
			}()
		}
		wg.Wait()
		var next []node[S]
		for i := range results {
			st.Transitions += trans[i]
			for _, s := range results[i] {
				if _, ok := seen[s.key]; ok {
					continue
				}
				seen[s.key] = struct{}{}
				if c.Inv != nil {
					c.Inv(s.n.s, s.n.path)
				}
				next = append(next, s.n)
			}
		}
		if stopped {
			st.Truncated = true
			st.States = len(seen)
			return st
		}
		if len(next) > 0 {
			st.MaxDepth = depth + 1
			st.PerDepth = append(st.PerDepth, len(next))
		}
		frontier = next
		st.States = len(seen)
	}
	return st
}
