package polyenv

import (
	"encoding/json"
	"fmt"
	"math"
	"os"

	"github.com/polynetwork/poly/common"
	vconfig "github.com/polynetwork/poly/consensus/vbft/config"
	"github.com/polynetwork/poly/core/signature"
	"github.com/polynetwork/poly/core/store"
	"github.com/polynetwork/poly/core/store/ledgerstore"
	"github.com/polynetwork/poly/core/types"
)

// Chain is the ledger driver: a real on-disk LedgerStoreImp initialised with the real genesis block.
type Chain struct {
	Dir     string
	L       *ledgerstore.LedgerStoreImp
	Vals    []*Acct
	Genesis *types.Block
}

// TmpDir returns a fresh scratch directory under $VERIF_TMP (default /verif/.tmp).
func TmpDir(prefix string) string {
	base := os.Getenv("VERIF_TMP")
	if base == "" {
		base = "/verif/.tmp"
	}
	_ = os.MkdirAll(base, 0o755)
	d, err := os.MkdirTemp(base, prefix)
	if err != nil {
		panic(err)
	}
	return d
}

// OpenChain opens (or re-opens: the real restart path) the ledger in dir. Setup() must have been called.
func OpenChain(dir string, vals []*Acct) (*Chain, error) {
	l, err := ledgerstore.NewLedgerStore(dir)
	if err != nil {
		return nil, err
	}
	g := GenesisBlock(vals)
	if err := l.InitLedgerStoreWithGenesisBlock(g, Pubs(vals)); err != nil {
		l.Close()
		return nil, err
	}
	return &Chain{Dir: dir, L: l, Vals: vals, Genesis: g}, nil
}

func (c *Chain) Close() { c.L.Close() }

// BlockOpt mutates a block under construction (before signing) — used to build deviating blocks.
type BlockOpt func(h *types.Header)

// VbftPayload is the consensus payload of an ordinary (non config-changing) block.
func VbftPayload(lastConfigBlock uint32, newCfg *vconfig.ChainConfig) []byte {
	info := &vconfig.VbftBlockInfo{Proposer: 1, LastConfigBlockNum: lastConfigBlock, NewChainConfig: newCfg}
	if lastConfigBlock == math.MaxUint32 {
		info.LastConfigBlockNum = math.MaxUint32
	}
	b, err := json.Marshal(info)
	if err != nil {
		panic(err)
	}
	return b
}

// NextBlock builds an honest successor of the current tip carrying txs, signed by signers
// (default: all validators). The block root is the honest accumulator root. CrossStateRoot is left
// zero unless set by an option (the ledger store does not check it; consensus fills it from ExecuteBlock).
func (c *Chain) NextBlock(txs []*types.Transaction, signers []*Acct, opts ...BlockOpt) *types.Block {
	h := c.L.GetCurrentBlockHeight()
	prev := c.L.GetCurrentBlockHash()
	prevHdr, err := c.L.GetHeaderByHash(prev)
	if err != nil {
		panic(err)
	}
	hdr := &types.Header{
		Version: types.CURR_HEADER_VERSION, ChainID: ChainID(), PrevBlockHash: prev,
		Timestamp: prevHdr.Timestamp + 1, Height: h + 1, ConsensusData: uint64(h + 1),
		ConsensusPayload: VbftPayload(0, nil), NextBookkeeper: OperatorAddr(c.Vals),
		BlockRoot: c.L.GetBlockRootWithPreBlockHashes(h+1, []common.Uint256{prev}),
	}
	b := &types.Block{Header: hdr, Transactions: txs}
	b.RebuildMerkleRoot()
	for _, o := range opts {
		o(hdr)
	}
	if signers == nil {
		signers = c.Vals
	}
	SignHeader(hdr, signers)
	return b
}

// SignHeader (re)signs the header with the given accounts, listing them as bookkeepers.
func SignHeader(hdr *types.Header, signers []*Acct) {
	hdr.Bookkeepers = nil
	hdr.SigData = nil
	// Header.Hash() caches: rebuild the header value to drop a stale cache.
	fresh := *hdr
	raw := fresh.ToArray()
	nh, err := types.HeaderFromRawBytes(raw)
	if err != nil {
		panic(err)
	}
	hash := nh.Hash()
	for _, s := range signers {
		sig, err := signature.Sign(s, hash[:])
		if err != nil {
			panic(err)
		}
		hdr.Bookkeepers = append(hdr.Bookkeepers, s.Pub)
		hdr.SigData = append(hdr.SigData, sig)
	}
}

// Rehash returns a copy of the block whose header hash cache is fresh (decode of encode).
func Rehash(b *types.Block) *types.Block {
	nb, err := types.BlockFromRawBytes(b.ToArray())
	if err != nil {
		panic(fmt.Sprintf("Rehash: %v", err))
	}
	return nb
}

// Commit executes and submits the block the way consensus does (ExecuteBlock + SubmitBlock).
func (c *Chain) Commit(b *types.Block) (store.ExecuteResult, error) {
	res, err := c.L.ExecuteBlock(b)
	if err != nil {
		return res, err
	}
	return res, c.L.SubmitBlock(b, res)
}

// CommitSync commits the way block sync does (AddBlock with the state merkle root computed by a dry run).
func (c *Chain) CommitSync(b *types.Block) error {
	res, err := c.L.ExecuteBlock(b)
	if err != nil {
		return err
	}
	return c.L.AddBlock(b, res.MerkleRoot)
}
