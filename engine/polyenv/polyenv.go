// Package polyenv closes the system around the real polynetwork/poly code: deterministic keys,
// genesis / VBFT configuration, transaction builders and the "native world" — a real key/value
// state store on which real native-contract transactions are executed through the production
// path StateStore.HandleInvokeTransaction (NativeService.Invoke, CacheDB commit-on-success).
package polyenv

import (
	"bytes"
	"crypto/elliptic"
	"crypto/sha256"
	"encoding/hex"
	"fmt"
	"math/big"
	"sort"

	"github.com/ontio/ontology-crypto/ec"
	"github.com/ontio/ontology-crypto/keypair"
	s "github.com/ontio/ontology-crypto/signature"
	"github.com/polynetwork/poly/common"
	"github.com/polynetwork/poly/common/config"
	"github.com/polynetwork/poly/common/log"
	"github.com/polynetwork/poly/core/genesis"
	"github.com/polynetwork/poly/core/ledger"
	"github.com/polynetwork/poly/core/payload"
	"github.com/polynetwork/poly/core/signature"
	"github.com/polynetwork/poly/core/store"
	scom "github.com/polynetwork/poly/core/store/common"
	"github.com/polynetwork/poly/core/store/ledgerstore"
	"github.com/polynetwork/poly/core/store/leveldbstore"
	"github.com/polynetwork/poly/core/store/overlaydb"
	"github.com/polynetwork/poly/core/types"
	"github.com/polynetwork/poly/native/event"
	"github.com/polynetwork/poly/native/states"
	"github.com/polynetwork/poly/native/storage"
)

// ---------------------------------------------------------------------------------------------
// keys

type Acct struct {
	Priv   keypair.PrivateKey
	Pub    keypair.PublicKey
	Addr   common.Address
	PubHex string // hex of the serialized (compressed) public key = VBFT peer id
}

func (a *Acct) PrivKey() keypair.PrivateKey { return a.Priv }
func (a *Acct) PubKey() keypair.PublicKey   { return a.Pub }
func (a *Acct) Scheme() s.SignatureScheme   { return s.SHA256withECDSA }

// Key returns the i-th deterministic P-256 account (fixed private scalar).
func Key(i int) *Acct {
	c := elliptic.P256()
	h := sha256.Sum256([]byte(fmt.Sprintf("verif-key-%d", i)))
	d := new(big.Int).SetBytes(h[:])
	d.Mod(d, new(big.Int).Sub(c.Params().N, big.NewInt(1)))
	d.Add(d, big.NewInt(1))
	pk := ec.ConstructPrivateKey(d.Bytes(), c)
	pri := &ec.PrivateKey{Algorithm: ec.ECDSA, PrivateKey: pk}
	pub := pri.Public().(keypair.PublicKey)
	return &Acct{Priv: pri, Pub: pub, Addr: types.AddressFromPubKey(pub),
		PubHex: hex.EncodeToString(keypair.SerializePublicKey(pub))}
}

func Keys(n int) []*Acct {
	out := make([]*Acct, n)
	for i := range out {
		out[i] = Key(i)
	}
	return out
}

// KeysFrom returns n keys starting at deterministic index base.
func KeysFrom(base, n int) []*Acct {
	out := make([]*Acct, n)
	for i := range out {
		out[i] = Key(base + i)
	}
	return out
}

func Pubs(a []*Acct) []keypair.PublicKey {
	out := make([]keypair.PublicKey, len(a))
	for i, x := range a {
		out[i] = x.Pub
	}
	return out
}

// OperatorAddr is the m-of-n address derived from the consensus validators (what GetCurConOperator returns).
func OperatorAddr(vals []*Acct) common.Address {
	a, err := types.AddressFromBookkeepers(Pubs(vals))
	if err != nil {
		panic(err)
	}
	return a
}

// ---------------------------------------------------------------------------------------------
// configuration

const VRF = "1c9810aa9822e511d5804a9c4db9dd08497c31087b0daafa34d768a3253441fa20515e2f30f81741102af0ca3cefc4818fef16adb825fbaa8cad78647f3afb590e"
const VRFProof = "c57741f934042cb8d8b087b44b161db56fc3ffd4ffb675d36cd09f83935be853d8729f3f5298d12d6fd28d45dde515a4b9d7f67682d182ba5118abf451ff1988"

func VBFTConf(vals []*Acct) *config.VBFTConfig {
	c := &config.VBFTConfig{BlockMsgDelay: 10000, HashMsgDelay: 10000, PeerHandshakeTimeout: 10,
		MaxBlockChangeView: 1000, VrfValue: VRF, VrfProof: VRFProof}
	for i, v := range vals {
		c.Peers = append(c.Peers, &config.VBFTPeerInfo{Index: uint32(i + 1), PeerPubkey: v.PubHex, Address: v.Addr.ToBase58()})
	}
	return c
}

// Setup installs the process-wide configuration the code under test reads: network id (hence chain id
// and fork heights), consensus type and the VBFT genesis config. Logging is silenced.
func Setup(netID uint32, vals []*Acct) {
	log.InitLog(log.MaxLevelLog) // above every level, no writer: silent
	config.DefConfig.P2PNode.NetworkId = netID
	config.DefConfig.Genesis.ConsensusType = config.CONSENSUS_TYPE_VBFT
	config.DefConfig.Genesis.VBFT = VBFTConf(vals)
	config.DefConfig.Common.EnableEventLog = true
}

func ChainID() uint64 { return config.GetChainIdByNetId(config.DefConfig.P2PNode.NetworkId) }

// GenesisBlock builds the real genesis block (node_manager.InitConfig transaction inside).
func GenesisBlock(vals []*Acct) *types.Block {
	b, err := genesis.BuildGenesisBlock(Pubs(vals), config.DefConfig.Genesis)
	if err != nil {
		panic(err)
	}
	return b
}

// ---------------------------------------------------------------------------------------------
// transactions

// Signer describes one Sig entry of a transaction.
type Signer struct {
	Keys []*Acct // one key: single-sig entry; several: m-of-n entry
	M    uint16
	// Sign: if true real signatures are produced (needed only when validation.VerifyTransaction is run);
	// block execution never verifies signatures, it only derives addresses from the listed keys.
	Sign bool
	// SignWith overrides who actually signs (default: the first M keys).
	SignWith []*Acct
}

func Single(a *Acct) Signer { return Signer{Keys: []*Acct{a}, M: 1} }

// Multi is the canonical operator entry: M = n - (n-1)/3 over the given validators.
func Multi(vals []*Acct) Signer {
	n := len(vals)
	return Signer{Keys: vals, M: uint16(n - (n-1)/3)}
}

var nonce uint32

// InvokeCode serialises a native contract invocation.
func InvokeCode(contract common.Address, method string, args []byte) []byte {
	p := &states.ContractInvokeParam{Address: contract, Method: method, Args: args}
	sink := common.NewZeroCopySink(nil)
	p.Serialization(sink)
	return sink.Bytes()
}

// Tx builds a real invoke transaction (round-tripped through the decoder so hash and Raw are set).
// nonceVal distinguishes otherwise identical transactions.
func Tx(contract common.Address, method string, args []byte, nonceVal uint32, signers ...Signer) *types.Transaction {
	tx := &types.Transaction{
		Version: types.CURR_TX_VERSION, TxType: types.Invoke, Nonce: nonceVal, ChainID: ChainID(),
		Payload: &payload.InvokeCode{Code: InvokeCode(contract, method, args)}, Attributes: []byte{},
	}
	// hash over unsigned part
	us := common.NewZeroCopySink(nil)
	if err := tx.SerializeUnsigned(us); err != nil {
		panic(err)
	}
	t1 := sha256.Sum256(us.Bytes())
	h := common.Uint256(sha256.Sum256(t1[:]))
	for _, sg := range signers {
		sig := types.Sig{M: sg.M}
		for _, k := range sg.Keys {
			sig.PubKeys = append(sig.PubKeys, k.Pub)
		}
		who := sg.SignWith
		if who == nil && sg.Sign {
			who = sg.Keys[:sg.M]
		}
		for _, k := range who {
			sd, err := signature.Sign(k, h[:])
			if err != nil {
				panic(err)
			}
			sig.SigData = append(sig.SigData, sd)
		}
		tx.Sigs = append(tx.Sigs, sig)
	}
	sink := common.NewZeroCopySink(nil)
	if err := tx.Serialization(sink); err != nil {
		panic(err)
	}
	out, err := types.TransactionFromRawBytes(sink.Bytes())
	if err != nil {
		panic(err)
	}
	return out
}

// ---------------------------------------------------------------------------------------------
// native world

type KV struct{ K, V string }

// Dump is a canonical (sorted) snapshot of the whole state store.
type Dump []KV

func (d Dump) String() string {
	var b bytes.Buffer
	for _, kv := range d {
		b.WriteString(hex.EncodeToString([]byte(kv.K)))
		b.WriteByte('=')
		b.WriteString(hex.EncodeToString([]byte(kv.V)))
		b.WriteByte('\n')
	}
	return b.String()
}

func (d Dump) Map() map[string]string {
	m := make(map[string]string, len(d))
	for _, kv := range d {
		m[kv.K] = kv.V
	}
	return m
}

// Diff returns keys whose value differs between d and o ("" = absent).
func (d Dump) Diff(o Dump) map[string][2]string {
	a, b := d.Map(), o.Map()
	out := map[string][2]string{}
	for k, v := range a {
		if b[k] != v {
			out[k] = [2]string{v, b[k]}
		}
	}
	for k, v := range b {
		if _, ok := a[k]; !ok {
			out[k] = [2]string{"", v}
		}
	}
	return out
}

type World struct {
	DB *leveldbstore.LevelDBStore
	SS *ledgerstore.StateStore // only used for HandleInvokeTransaction (stateless method)
}

// heightLedger is the DefLedger double: only GetCurrentBlockHeight is ever consulted by native code
// (side_chain_manager fork check). Every other method panics via the nil embedded interface.
type heightLedger struct {
	store.LedgerStore
	h *uint32
}

func (l heightLedger) GetCurrentBlockHeight() uint32 { return *l.h }

var GlobalHeight uint32

// InstallHeightLedger installs a DefLedger whose current height is the driver-owned GlobalHeight.
func InstallHeightLedger() {
	ledger.DefLedger = ledger.VerifNewLedger(heightLedger{h: &GlobalHeight})
}

func NewWorld() *World {
	db, err := leveldbstore.NewMemLevelDBStore()
	if err != nil {
		panic(err)
	}
	return &World{DB: db, SS: ledgerstore.NewMemStateStore(0)}
}

// NewWorldFrom restores a snapshot into a fresh store.
func NewWorldFrom(d Dump) *World {
	w := NewWorld()
	w.DB.NewBatch()
	for _, kv := range d {
		w.DB.BatchPut([]byte(kv.K), []byte(kv.V))
	}
	if err := w.DB.BatchCommit(); err != nil {
		panic(err)
	}
	return w
}

func (w *World) Close() { w.DB.Close() }

func (w *World) Dump() Dump {
	it := w.DB.NewIterator(nil)
	defer it.Release()
	var d Dump
	for it.Next() {
		d = append(d, KV{string(it.Key()), string(it.Value())})
	}
	sort.Slice(d, func(i, j int) bool { return d[i].K < d[j].K })
	return d
}

// Result of executing one transaction as a one-transaction block.
type Result struct {
	OK          bool
	Err         error
	Notify      *event.ExecuteNotify
	CrossHashes []common.Uint256
	WriteSet    Dump // empty value = delete
	Panic       any
}

// Header builds the block context a transaction executes in.
func BlockCtx(height, timestamp uint32) *types.Block {
	return &types.Block{Header: &types.Header{Version: types.CURR_HEADER_VERSION, ChainID: ChainID(),
		Height: height, Timestamp: timestamp}}
}

// Exec runs tx through the production path on top of the world's store and, if it succeeds,
// commits its write set to the store. A panic inside contract code is captured in Result.Panic.
func (w *World) Exec(tx *types.Transaction, height, timestamp uint32) (res Result) {
	overlay := overlaydb.NewOverlayDB(w.DB)
	cache := storage.NewCacheDB(overlay)
	block := BlockCtx(height, timestamp)
	notify := &event.ExecuteNotify{TxHash: tx.Hash(), State: event.CONTRACT_STATE_FAIL}
	res.Notify = notify
	func() {
		defer func() {
			if x := recover(); x != nil {
				res.Panic = x
				res.Err = fmt.Errorf("panic: %v", x)
			}
		}()
		res.CrossHashes, res.Err = w.SS.HandleInvokeTransaction(nil, overlay, cache, tx, block, notify)
	}()
	if overlay.Error() != nil {
		res.Err = fmt.Errorf("overlay error: %v", overlay.Error())
		return
	}
	res.OK = res.Err == nil
	overlay.GetWriteSet().ForEach(func(k, v []byte) {
		res.WriteSet = append(res.WriteSet, KV{string(k), string(v)})
	})
	if res.Panic != nil {
		return
	}
	w.DB.NewBatch()
	overlay.CommitTo()
	if err := w.DB.BatchCommit(); err != nil {
		panic(err)
	}
	return
}

// Get reads a raw contract-storage value (key = contract address ++ suffix), stripping the
// StorageItem wrapper is left to the caller.
func (w *World) GetRaw(key []byte) []byte {
	k := append([]byte{byte(scom.ST_STORAGE)}, key...)
	v, err := w.DB.Get(k)
	if err != nil {
		return nil
	}
	return v
}

// StorageKey is the raw store key of a contract-storage key.
func StorageKey(key []byte) string { return string(append([]byte{byte(scom.ST_STORAGE)}, key...)) }

// Genesis executes the genesis block's InitConfig transaction so that the world holds the initial
// governance state for the given validators (heights start at 0).
func (w *World) Genesis(vals []*Acct) {
	g := GenesisBlock(vals)
	for _, tx := range g.Transactions {
		r := w.Exec(tx, 0, g.Header.Timestamp)
		if !r.OK {
			panic(fmt.Sprintf("genesis tx failed: %v", r.Err))
		}
	}
}
