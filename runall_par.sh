#!/bin/bash
# runall_par.sh <tier> <parallelism> [ids...] : run claimed checks, several at a time; one line per check in .tmp/runall_par_<tier>.txt
TIER=${1:-quick}; PAR=${2:-3}; shift 2
cd /verif
IDS=${*:-$(sort claimed.txt)}
OUT=.tmp/runall_par_$TIER.txt; : > $OUT
run1() {
  c=$1; TIER=$2; s=$(date +%s)
  timeout 3000 ./check $c --tier $TIER > .tmp/runall_${TIER}_$c.log 2>&1; e=$?
  t=$(( $(date +%s) - s ))
  ex=$(python3 -c "import json;print(json.load(open('evidence/$c.json'))['coverage'].get('exhaustive'))" 2>/dev/null)
  printf '%s exit=%d wall=%ds exhaustive=%s %s\n' $c $e $t "$ex" "$(grep -c '^KNOWN-FINDING' .tmp/runall_${TIER}_$c.log) known; $(grep -E '^VIOLATION|HARNESS' .tmp/runall_${TIER}_$c.log | head -2 | cut -c1-120 | tr '\n' ' ')" >> .tmp/runall_par_$TIER.txt
}
export -f run1
echo $IDS | tr ' ' '\n' | xargs -P $PAR -I{} bash -c "run1 {} $TIER"
sort $OUT -o $OUT
