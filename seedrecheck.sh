#!/bin/bash
# seedrecheck.sh <seed dir name, e.g. C29-s2> ["note"] : re-run the owning check against a stored seed (build overlay, /repo untouched)
# and record the verdict in its meta.json (check_exit_first_run keeps the verdict of the check as it stood when the seed arrived).
S=$1; NOTE=${2:-}
ID=${S%%-*}
cd /verif
./killdemo.sh $ID seeded/$S/patch.diff > seeded/$S/check.log 2>&1; E=$?
grep -E '^VIOLATION|^SUMMARY|HARNESS' seeded/$S/check.log | head -4 | cut -c1-200
python3 - "$S" "$E" "$NOTE" <<'PY'
import json,sys
s,e,note=sys.argv[1],int(sys.argv[2]),sys.argv[3]
p=f'/verif/seeded/{s}/meta.json'; m=json.load(open(p))
m.setdefault('check_exit_first_run', m.get('check_exit'))
m['check_exit']=e; m['detected']=(e==1)
if note: m['note']=note
json.dump(m,open(p,'w'),indent=1)
print(s,'first',m['check_exit_first_run'],'now',e)
PY
