#!/usr/bin/env python3
"""mkdiff.py <repo-rel-file> <out.diff> <old1> <new1> [<old2> <new2> ...] : build a -p1 unified diff against /repo by exact-string replacement (each old must occur once)."""
import subprocess, sys, os, tempfile
path, out = sys.argv[1], sys.argv[2]
pairs = sys.argv[3:]
s = open(os.path.join('/repo', path)).read()
for i in range(0, len(pairs), 2):
    old, new = pairs[i].encode().decode('unicode_escape'), pairs[i+1].encode().decode('unicode_escape')
    if s.count(old) != 1:
        sys.exit(f"mkdiff: pattern occurs {s.count(old)} times: {old!r}")
    s = s.replace(old, new)
fd, tmp = tempfile.mkstemp()
os.write(fd, s.encode()); os.close(fd)
d = subprocess.run(['diff', '-u', os.path.join('/repo', path), tmp], capture_output=True, text=True).stdout.splitlines(True)
os.remove(tmp)
d[0] = f'--- a/{path}\n'; d[1] = f'+++ b/{path}\n'
open(out, 'a').write(''.join(d))
