#!/usr/bin/env python3
"""Regenerates /verif/MANIFEST.json from the table below + /verif/claimed.txt (one property id per line).
A property not in claimed.txt is listed under not_applicable with its reason."""
import json, os, subprocess

V = "/verif"
# id: (level, technique, assurance text, trusted base / assumptions, DESIGN section)
P = {
 "C01": ("exploration", "bounded-exhaustive enumeration of primitive sequences x every truncation / length-prefix splice, against value equality",
         "All sequences of <=3 (thorough 4) primitives over boundary alphabets, both encoders and both decoders, every truncation point and blown-up length prefix.",
         "boundary-value alphabet stands for all values (small-scope)"),
 "C02": ("exploration", "bounded-exhaustive enumeration of ledger objects x signature-set pairs x truncations/1-2 deviation mutations",
         "Round trip, identity independent of signatures for every pair of signature sets, block decoder duplicate/root refusal, panic-freedom on every truncation and bounded mutation (subprocess under ulimit).",
         "field alphabets are boundary values; mutations bounded to 2 deviations"),
 "C03": ("exploration", "exhaustive enumeration of every leaf count 0..N x leaf families against an independent reference",
         "Every transaction count up to the bound on all three code paths; differential against a textbook level-by-level Merkle root.",
         "counts above the bound follow the same loop structure"),
 "C04": ("exploration", "bounded-exhaustive enumeration of record values x map insertion orders x truncations/mutations",
         "Every anchored Serialization/Deserialization pair: round trip, canonical bytes under all insertion orders (|map|<=4), truncation and count-prefix mutations never panic.",
         "per-field boundary alphabets"),
 "C05": ("exploration", "bounded-exhaustive enumeration of frames x every single-byte corruption / truncation",
         "All message kinds round trip; every single-byte corruption at every offset with three replacement values is rejected or decodes as a different known kind; never panics.",
         "payload alphabets are boundary-sized"),
 "C06": ("model_checking", "explicit-state exploration of append/predict/save/reload sequences on the real tree vs RFC 6962 reference; full proof grid",
         "Every tree size up to the bound reached through append/predict/marshal/reopen transitions; root equals reference MTH; every (m,n) inclusion and consistency proof verified.",
         "SHA-256 collision freedom"),
 "C07": ("exploration", "exhaustive single and pair mutations of every valid proof tuple against a reference truth oracle",
         "For every valid tuple up to the size bound all single and pair mutations: verifier may accept only if the mutated claim is still true of the tree.",
         "SHA-256 collision freedom; mutation alphabet"),
 "C08": ("model_checking", "exploration of committed chain histories on the real ledger; every (block, record) and (h,r) proof verified",
         "Real ledger, histories with varying cross-chain record counts via both commit paths and after reopen; every served proof verified against the committed header roots.",
         "record-count vectors bounded"),
 "C09": ("model_checking", "explicit-state BFS over op sequences on the real MemDB vs a map+tombstone model",
         "All operation sequences to the depth bound over a colliding key alphabet; every return compared with the reference model.",
         "key/value alphabet; depth bound"),
 "C10": ("model_checking", "explicit-state BFS over three real layers (store, OverlayDB, CacheDB) vs three maps with tombstones",
         "All op sequences to the depth bound over every subset of persisted keys; reads, scans, commit and reset compared with the model.",
         "key alphabet; depth bound"),
 "C11": ("model_checking", "exhaustive enumeration of write sequences grouped by net write set",
         "All write sequences to the length bound grouped by net effect; digest and write set identical within a class and different across classes.",
         "key/value alphabet"),
 "C12": ("fault_enumeration", "crash injected at every persistence event of every history, recovery compared with crash-free twin",
         "Every durable-write event (leveldb put/delete/batch, hash-file append) of every bounded block history is a crash point; restart via the real path and compare heights, state dump, roots; then extend the chain.",
         "process-crash model: completed writes survive, a leveldb batch is atomic (no torn writes)"),
 "C13": ("model_checking", "explicit-state exploration of block submissions with one deviation on the real ledger",
         "Chains to the depth bound; every one-deviation successor via AddBlock/SubmitBlock/AddHeaders; accepted implies zero deviations; lookups agree.",
         "deviation alphabet"),
 "C14": ("model_checking", "exhaustive signer-multiset enumeration per validator count on the real ledger, incl. hand-over histories",
         "For every N up to the bound and every signer multiset class: accept implies enough distinct valid member signatures; validator hand-over histories.",
         "N bound; new-rule region reached by inflating the header index in-package"),
 "C15": ("model_checking", "exhaustive enumeration of probe programs with a failure at every position inside real block execution",
         "All probe programs to the length bound with Fail at every position; blocks of up to 3 such txs; write set, cross hashes and notifies compared with a fold of successful programs.",
         "probe contract runs inside the real NativeService/CacheDB"),
 "C16": ("model_checking", "exhaustive map-iteration-order exploration of block execution + exhaustive call-graph reachability of clock/random sources",
         "(a) each corpus block re-executed under the explored map-order space: identical results; (b) every call path from execution roots to time/rand in repository code enumerated.",
         "CHA call graph over-approximates; third-party interiors excluded by the stated scoping rule"),
 "C17": ("model_checking", "product-automaton search over extracted key schemas + replay of collisions on the real accessors",
         "Key schemas extracted from source on every run; exhaustive pairwise intersection search; collisions concretised against real put/get; write sets of the corpus confined to the storage prefix.",
         "schema extraction validated against real accessor output"),
 "C18": ("model_checking", "exhaustive signer-subset enumeration per privileged method in a state where the call would otherwise succeed",
         "Every privileged method x every signer subset from the alphabet through real signature validation + execution: success implies required witness present.",
         "method table generated from code"),
 "C19": ("model_checking", "BFS over install/sync event sequences per router on the real header-sync contract",
         "All sequences of genesis installs to the depth bound per synthesisable router: later installs fail and leave storage byte-identical.",
         "routers whose genesis parameters can be synthesised offline"),
 "C20": ("model_checking", "BFS over submission sequences vs a done-set model on the real cross-chain manager",
         "All submit sequences to the depth bound over ids/proof variants/relayers: accept iff valid and not done; replay fails with unchanged dump.",
         "routers with synthesisable proofs"),
 "C21": ("model_checking", "BFS over registry/blacklist/import events vs a set model",
         "All event sequences to the depth bound: import accepted implies both chains registered, none blacklisted, router active; rejected import leaves dump unchanged.",
         "3 chain ids"),
 "C22": ("model_checking", "every accepted import of the explored space checked for exactly one request key/leaf",
         "Write-set diff of each accepted import has exactly one request key with the right content and one cross hash; rejected imports none.",
         "message alphabet"),
 "C23": ("exploration", "bounded-exhaustive proof mutation over synthetic go-ethereum tries through the real handlers",
         "Synthetic state/storage tries, every proof mutation and height/fork variant per router: accept iff canonical, confirmed, both proofs valid, value matches.",
         "ethash seal bypassed by hook H4; PoSA routers via synthetic seals"),
 "C24": ("exploration", "exhaustive signer-list enumeration per tracked set size through the real verifiers",
         "All signer lists (subsets, duplicates, foreign, bad signature) per N: accept implies enough distinct valid tracked signers.",
         "N bound"),
 "C25": ("model_checking", "BFS over vote sequences until past quorum on the real vote/signature contracts",
         "All vote sequences for N up to the bound: release exactly at first vote reaching ceil(2N/3) distinct current validators, never twice.",
         "N bound"),
 "C26": ("model_checking", "exhaustive UTXO multiset x target x parameter enumeration through the real selector and handler",
         "All UTXO multisets up to the size bound over boundary values: selection distinct, sum exact, change rule; handler histories keep UTXO/STXO sets consistent.",
         "value alphabet scaled to the target"),
 "C27": ("model_checking", "all header-tree shapes x all submission permutations on the real ETH/BTC light clients",
         "Every tree shape up to the size bound in every submission order: parent-closed, TD additive, canonical index gap-free and maximal.",
         "ethash seal bypassed by hook H4"),
 "C28": ("exploration", "differential enumeration over boundary alphabets against go-ethereum / EIP reference implementations",
         "Difficulty, base fee, gas limit, header hash and cache/dataset sizes (all epochs) equal the reference; each rule violated by one unit is rejected.",
         "boundary alphabets for unbounded domains"),
 "C29": ("model_checking", "BFS over synthetic sealed header sequences per PoSA router",
         "Real secp256k1 seals; all header sequences to the depth bound: stored implies parent stored, signer authorised and not recent, difficulty matches turn.",
         "3-4 validators"),
 "C30": ("model_checking", "exhaustive signer-subset x header-variant enumeration with real tendermint signatures; deposit proof variants",
         "All signer subsets and header variants: advance implies higher height, trusted valset hash, >2/3 power; deposits need existence proofs.",
         "1-4 validators"),
 "C31": ("model_checking", "BFS over header submissions across key heights (ONT) and validator changes (NEO)",
         "Headers on both sides of each key height in any order with signer subsets: accept implies enough distinct members of the right set.",
         "key-height alphabet"),
 "C32": ("model_checking", "BFS over approval sequences per governance call site on the real contracts",
         "For every approval call site and two concurrent requests: effect appears exactly at the approval reaching ceil(2N/3) distinct current validators.",
         "N bound"),
 "C33": ("model_checking", "second approval round after every applied request on the real contracts",
         "After each applied request a second full approval round (and inverse op) must have no effect without a fresh request.",
         "N=4"),
 "C34": ("model_checking", "BFS over node-governance operations with invariants on every state",
         "All operation sequences to the depth bound from 4- and 5-validator pools: pool invariants and epoch-change post-conditions on every state.",
         "depth bound; applicant alphabet"),
 "C35": ("model_checking", "BFS over owner/validator events vs a registry model",
         "All request/approve sequences to the depth bound for 2 owners x 2 chain ids vs a reference registry.",
         "depth bound"),
 "C36": ("model_checking", "exhaustive registry histories x signer subsets through the real admission check",
         "Registry histories x every signer subset: admitted implies a signer is a registered relayer or permitted consensus address at that moment.",
         "cache refresh seam driven by the harness"),
 "C37": ("model_checking", "event-level BFS over pool handlers + preemption-bounded schedule exploration of TXPool with a controlled scheduler",
         "All handler event sequences to the depth bound; all schedules of 3 goroutines up to the preemption bound checked for linearizability against a map model.",
         "sync operations are the only scheduling points; separate free-running -race pass"),
 "C38": ("model_checking", "BFS over AddBlock/Clean sequences vs a list model with all queries after each step",
         "All block sequences to the depth bound; every (tx,startHeight) query compared with the model.",
         "capacity 3"),
 "C39": ("exploration", "exhaustive signature-entry enumeration with real keys through real validation",
         "All sub-multisets of signatures for all m-of-n up to the bound: accept iff first m signatures valid for distinct key positions and counts within limits.",
         "n<=3 plus 16/17 boundary"),
 "C40": ("exploration", "exhaustive enumeration of configurations x seed families through the real selection code",
         "All peer-table configurations up to the bound x structured seed families: selection well formed whenever one is returned.",
         "seed families are enumerated, not all 2^512 seeds"),
 "C41": ("model_checking", "BFS over proposal/endorse/commit message sequences on the real block pool",
         "All message sequences to the depth bound for N=4 and N=7: endorse/commit decisions imply the distinct-participant counts.",
         "in-package minimal Server"),
 "C42": ("model_checking", "TLC explicit subsets + Apalache symbolic arithmetic core + threshold expressions extracted from source and evaluated",
         "Intersection invariant model-checked (TLC for small N, Apalache for all N); node threshold expressions extracted by AST and compared with the model for N=1..10000.",
         "TLA+ model bound to code by expression extraction"),
 "C43": ("exploration", "exhaustive scheme x password alphabet enumeration through the real wallet",
         "Every scheme x password: reload yields the same key; every other password from the alphabet fails.",
         "password alphabet"),
 "C44": ("exploration", "exhaustive field-mutation enumeration of every signed consensus message kind",
         "All message kinds round trip; every single-field mutation and single-byte flip of signed bytes fails verification.",
         "field boundary alphabets"),
}

# Additions made while strengthening the drivers against seeded changes (technique suffix, assurance suffix).
EXTRA = {
 "C03": ("; object-lifetime dimension (repeated rebuild, same-count replacement)", " Leaf counts to 4200/9000 incl. sizes around 1024/2048/4096; RebuildMerkleRoot repeated and after replacing a transaction."),
 "C05": ("; all ordered pairs / selected triples of frames in one stream with retained decoded messages", " Retained messages compared after later reads and after the stream is overwritten (no aliasing)."),
 "C08": ("; close+reopen as an event of the history (deviation bound 2)", " Full (h,r) and cross-state proof grid after every block and every restart, also before any further commit."),
 "C11": ("; ledger-level enumeration of node-local events between ExecuteBlock and SubmitBlock (bound 2); volume dimension", " Write set reaching SubmitBlock and persisted state equal the net write set under every placement of pre-executions / re-executions / reads."),
 "C12": ("; large-block kinds (1500-key tx, 1100-tx block) in the crash histories", " Crash points are learnt from each run, so chunked or additional durable writes are enumerated automatically."),
 "C13": ("; schedule enumeration of two concurrent committers (persistence hook = switch point, blocking on the saving semaphore observed through goroutine state), preemption bound 1-2", " Final ledger of every schedule equals a sequential outcome: accumulator and state-tree sizes, next block root, successor accepted, store reopens."),
 "C14": ("; prior-state dimension (header-cache hit, rejected variant first, ExecuteBlock first) x same-hash signature variants", " Stored and served headers must themselves carry the quorum."),
 "C15": ("; schedule exploration of two concurrent block executions (every CacheDB operation and sync primitive a scheduling point, sync.Pool deterministic), preemption bound 1-2", " Each concurrent execution must equal the reference model's result for it alone."),
 "C16": ("; process-history dimension for every corpus block (cold child process, after own discarded execution, after pre-execution, after another block) incl. a real-PoW ETH header", " Results identical in every process history."),
 "C17": ("; dynamic key audit: written keys of real transactions vs the model's entitled logical records, injectivity over explored histories", " UpdateFee rounds across timeouts, request ids, commitDpos views."),
 "C18": ("; configuration dimension for the epoch-due test (MaxBlockChangeView x view height x height incl. uint32 wrap)", " Wide-integer oracle for 'before it is due'."),
 "C20": ("; BTC adapter (real SPV deposits, witness/stripped/other-height resubmissions) and envelope variants", " Chain ids 0, 1 and MaxUint64."),
 "C22": ("; schedule exploration of two concurrent imports on separate worlds (CacheDB operations and sync primitives incl. Pool as scheduling points), preemption bound 1-2", " Each concurrent import must equal the same import executed alone and satisfy the request/leaf oracle."),
 "C23": ("; hash-shape dimension (keccak with 0/1/2 leading zero bytes stored stripped, trailing zeros) for all 9 routers", ""),
 "C24": ("; deposit histories through the real ont handlers (stored-message state x claimed height x entrance height x root)", ""),
 "C25": ("; validator status changes inside the view (quit, candidate approval, commitDpos) as events", ""),
 "C29": ("; msc in-header vote family against the clique tally model; hand-over families with set-size changes", ""),
 "C30": ("; deposit header height relative to the tracked epoch x body x commit x claimed block id", ""),
 "C31": ("; batching dimension (1-3 headers per call, all compositions) for ont / neo / neo3", ""),
 "C34": ("; alias spellings of the key parameter in every method", ""),
 "C36": ("; request-list shapes (unregistered entries, duplicates, orders) against a model of approved requests", ""),
 "C37": ("; schedule exploration of the worker/consensus seam of the server (lock operations of server, worker, pool), preemption bound 2-3", ""),
 "C40": ("; seven peer-index shapes incl. indexes >= 64 and near 2^32", ""),
 "C42": ("; measured number of DISTINCT validators at the quorum event of signature_manager under re-submission patterns", ""),
 "C43": ("; wallet-level operation sequences incl. export / low-security export / clone mutation, live wallet and every exported file reloaded", ""),
 "C44": ("; provenance states (decoded zero-copy / reader / re-encoded / reused object) x post-decode mutations", ""),
}
for _k, (_t, _a) in EXTRA.items():
    _l, _tech, _text, _note = P[_k]
    P[_k] = (_l, _tech + _t, _text + _a, _note)

def main():
    claimed = []
    p = os.path.join(V, "claimed.txt")
    if os.path.exists(p):
        claimed = [l.strip() for l in open(p) if l.strip() and not l.startswith("#")]
    reasons = {}
    p = os.path.join(V, "not_claimed_reasons.json")
    if os.path.exists(p):
        reasons = json.load(open(p))
    hooks_commits = []
    try:
        out = subprocess.run(["git", "-C", "/repo", "log", "--format=%H %s"], capture_output=True, text=True).stdout
        hooks_commits = [l.split()[0] for l in out.splitlines() if "verif hooks" in l]
    except Exception:
        pass
    checks = []
    for pid in sorted(P):
        if pid not in claimed:
            continue
        level, tech, text, note = P[pid]
        checks.append({
            "property_id": pid,
            "quick_cmd": f"./check {pid} --tier quick",
            "thorough_cmd": f"./check {pid} --tier thorough",
            "evidence_file": f"/verif/evidence/{pid}.json",
            "replay_cmd_template": f"./check {pid} --replay {{path}}",
            "engine": "engine",
            "level_claimed": {"category": level, "text": text, "design_ref": f"DESIGN.md §3 {pid}"},
            "level_note": note,
            "technique": tech,
        })
    na = [{"property_id": pid, "reason": reasons.get(pid, "driver not built yet (planned, see DESIGN.md §3)")}
          for pid in sorted(P) if pid not in claimed]
    man = {
        "version": 1,
        "setup_cmd": "./setup.sh",
        "hooks": {
            "guard": "verif (Go build tag)",
            "enable": "go build -tags verif -overlay <generated overlay.json> (done by ./check)",
            "baseline_off_cmd": "cd /repo && go build ./... ; go test -mod=mod -json -vet=off -count=1 -timeout 25m ./...",
            "source_commits": hooks_commits,
            "add_only": True,
        },
        "engines": [
            {"name": "engine", "path": "/verif/engine",
             "serves_properties": [c["property_id"] for c in checks],
             "kind_free_text": "hand-written Go explorers (explicit-state BFS over real transition functions, bounded-exhaustive enumerators, crash-point enumerator, controlled scheduler) driving the real code through an external module + build overlay"},
        ],
        "checks": checks,
        "not_applicable": na,
        "notes": "Every check rebuilds its driver from /repo's working tree (tag verif, generated overlay). KNOWN_FINDINGS.txt lists recorded genuine defects.",
    }
    json.dump(man, open(os.path.join(V, "MANIFEST.json"), "w"), indent=1)
    print("claimed:", len(checks), "not claimed:", len(na))

main()
