---- MODULE quorum ----
(* C42: any two validator sets that meet the node's block-acceptance threshold, or the node's governance  *)
(* threshold, share more than f = (n-1) \div 3 validators. The thresholds T1/T2 are NOT written here: they *)
(* come from CodeTable, a module generated on every run from the threshold expressions found in the Go    *)
(* source, so TLC decides the intersection property for what the node computes.                           *)
EXTENDS Naturals, FiniteSets, Sequences, CodeTable
CONSTANT MaxN
VARIABLES n, A, B
F(k) == (k - 1) \div 3
SpecT1(k) == k - F(k)
SpecT2(k) == (2 * k + 2) \div 3
Init == /\ n \in 1..MaxN
        /\ A \in SUBSET (1..n)
        /\ B \in SUBSET (1..n)
Next == UNCHANGED <<n, A, B>>
InvBlock == (Cardinality(A) >= CodeBlock[n] /\ Cardinality(B) >= CodeBlock[n]) => Cardinality(A \cap B) > F(n)
InvGov == (Cardinality(A) >= CodeGov[n] /\ Cardinality(B) >= CodeGov[n]) => Cardinality(A \cap B) > F(n)
InvVote == (Cardinality(A) >= CodeVote[n] /\ Cardinality(B) >= CodeVote[n]) => Cardinality(A \cap B) > F(n)
InvTable == CodeBlock[n] = SpecT1(n) /\ CodeGov[n] = SpecT2(n) /\ CodeVote[n] = SpecT2(n)
====
