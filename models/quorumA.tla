---- MODULE quorumA ----
(* Arithmetic core for ALL n (Apalache, symbolic): the worst-case overlap of two subsets of an n-set with  *)
(* sizes a and b is a+b-n (validated for small n by the explicit TLC model), so it suffices that          *)
(* a,b >= T  =>  a+b-n > f.                                                                               *)
EXTENDS Integers
VARIABLES
  \* @type: Int;
  n,
  \* @type: Int;
  a,
  \* @type: Int;
  b
F == (n - 1) \div 3
T1 == n - F
T2 == (2 * n + 2) \div 3
Init == n \in Nat /\ n >= 1 /\ a \in Nat /\ b \in Nat /\ a <= n /\ b <= n
Next == UNCHANGED <<n, a, b>>
InvBlock == (a >= T1 /\ b >= T1) => (a + b - n > F)
InvGov == (a >= T2 /\ b >= T2) => (a + b - n > F)
Inv == InvBlock /\ InvGov
====
