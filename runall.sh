#!/bin/bash
# runall.sh [tier] : run every claimed check once on the tree as it stands; table of exit status and wall time.
TIER=${1:-quick}
cd /verif
for c in $(sort claimed.txt); do
  s=$(date +%s)
  timeout 3600 ./check $c --tier $TIER > .tmp/runall_$c.log 2>&1; e=$?
  t=$(( $(date +%s) - s ))
  printf '%s exit=%d wall=%ds %s\n' $c $e $t "$(grep -c '^KNOWN-FINDING' .tmp/runall_$c.log) known; $(grep -E '^VIOLATION|HARNESS' .tmp/runall_$c.log | head -2 | cut -c1-120 | tr '\n' ' ')"
done
