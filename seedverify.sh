#!/bin/bash
# seedverify.sh <Cnn> <tag> <worktree> <demo cmd (run inside a scratch worktree), quoted>
# Stores the seeded change under /verif/seeded/<Cnn>-<tag>/ and verifies it independently in a fresh scratch worktree:
#   1. patch applies to /repo HEAD, repository packages build;
#   2. the 179 baseline tests still pass with the patch;
#   3. the demonstration FAILS with the patch and PASSES without it.
# Then runs the /verif check against it through the build overlay (killdemo). Prints a summary; writes meta.json.
set -u
ID=$1; TAG=$2; WT=$3; DEMO=$4
export GOFLAGS=-mod=mod GOPROXY=off GOSUMDB=off GOTOOLCHAIN=local
D=/verif/seeded/$ID-$TAG; mkdir -p $D/demo
cp $WT/seed_patch.diff $D/patch.diff || exit 2
# demo files = untracked files in the worktree except the patch
( cd $WT && git ls-files --others --exclude-standard | grep -v '^seed_patch.diff$' | grep -v '\.db' ) > $D/demo_files.txt
( cd $WT && tar cf - -T $D/demo_files.txt ) | ( cd $D/demo && tar xf - )
S=/tmp/seedv/$ID-$TAG; rm -rf $S; mkdir -p /tmp/seedv; git -C /repo worktree add -q --detach $S HEAD || exit 2
trap 'git -C /repo worktree remove --force $S >/dev/null 2>&1' EXIT
cd $S
( cd $D/demo && tar cf - . ) | tar xf -
stubs() { # SEED_STUBS=1: make the entrance packages compile in the scratch worktree (harmony cgo BLS is missing in this sandbox)
  cp /tmp/seed/stubs/header_sync_harmony_header_sync.go native/service/header_sync/harmony/header_sync.go
  rm -f native/service/header_sync/harmony/state.go native/service/header_sync/harmony/utils.go native/service/header_sync/harmony/*_test.go
  cp /tmp/seed/stubs/cross_chain_manager_harmony_harmony_handler.go native/service/cross_chain_manager/harmony/harmony_handler.go
  rm -f native/service/cross_chain_manager/harmony/*_test.go
}
[ "${SEED_STUBS:-0}" = 1 ] && stubs
echo "== demo WITHOUT patch"; bash -c "$DEMO" > $D/demo_without.log 2>&1; RW=$?; tail -3 $D/demo_without.log
git apply $D/patch.diff || { echo "PATCH DOES NOT APPLY"; exit 2; }
echo "== demo WITH patch"; bash -c "$DEMO" > $D/demo_with.log 2>&1; RP=$?; tail -3 $D/demo_with.log
echo "== build"; go build ./account/... ./common/... ./consensus/... ./core/... ./merkle/... ./p2pserver/... ./txnpool/... ./validator/... ./native/service/governance/... ./native/service/utils/... ./native/storage/... ./native/states/... 2>&1 | grep -v "^#\|warning\|oaes\|ftime\|\^\|note:\|_block\|~" | head -5; BR=${PIPESTATUS[0]}
echo "== baseline tests with patch"
# remove the demo so that it does not count as a test failure
( cd $D/demo && find . -type f ) | while read f; do rm -f "$S/$f"; done
[ "${SEED_STUBS:-0}" = 1 ] && git checkout -q -- native/service/header_sync/harmony native/service/cross_chain_manager/harmony
go test -json -vet=off -count=1 -timeout 25m ./... > $D/baseline_with_patch.json 2>/dev/null
python3 /verif/baseline_compare.py $D/baseline_with_patch.json | tee $D/baseline_with_patch.txt | head -8
BL=$(head -1 $D/baseline_with_patch.txt)
rm -f $D/baseline_with_patch.json
cd /verif
echo "== check via overlay"
./killdemo.sh $ID $D/patch.diff > $D/check.log 2>&1; CR=$?
grep -E "^VIOLATION|^SUMMARY|HARNESS" $D/check.log | cut -c1-200 | head -8
python3 - <<PY
import json
json.dump({"property": "$ID", "tag": "$TAG", "demo_cmd": """$DEMO""", "demo_exit_without_patch": $RW, "demo_exit_with_patch": $RP,
 "build_exit": $BR, "baseline": "$BL", "check_exit": $CR, "detected": $CR == 1}, open("$D/meta.json", "w"), indent=1)
PY
echo "RESULT $ID-$TAG demo_without=$RW demo_with=$RP build=$BR check_exit=$CR"
