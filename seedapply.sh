#!/bin/bash
# seedapply.sh <seed dir name>... : confirm a stored seed the literal way — git -C /repo apply, run the owning check on the
# working tree, undo straight afterwards (git checkout -- .) — and record the exit status in meta.json (real_apply_exit).
# Only run while nothing else uses /repo. The check's evidence file is rewritten by such a run: re-run the check afterwards.
cd /verif
for S in "$@"; do
  ID=${S%%-*}
  if [ -n "$(git -C /repo status --porcelain)" ]; then echo "repo not clean"; exit 2; fi
  git -C /repo apply /verif/seeded/$S/patch.diff || { echo "$S: patch does not apply"; continue; }
  ./check $ID > seeded/$S/check_real_apply.log 2>&1; E=$?
  git -C /repo checkout -- .
  git -C /repo status --porcelain | grep -q . && { echo "repo not clean after undo"; git -C /repo status --porcelain; exit 2; }
  python3 - "$S" "$E" <<'PY'
import json,sys
s,e=sys.argv[1],int(sys.argv[2]); p=f'/verif/seeded/{s}/meta.json'; m=json.load(open(p)); m['real_apply_exit']=e; json.dump(m,open(p,'w'),indent=1)
print(s,'real apply exit',e)
PY
done
