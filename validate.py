#!/usr/bin/env python3
"""validate.py : validate MANIFEST.json and every evidence/*.json against the schemas (uses the tooling venv)."""
import json, glob, sys, jsonschema
ok = True
def v(path, schema):
    global ok
    try:
        jsonschema.validate(json.load(open(path)), json.load(open(schema)))
    except Exception as e:
        ok = False
        print("INVALID", path, str(e).splitlines()[0])
v('/verif/MANIFEST.json', '/root/.vp/MANIFEST.schema.json')
for f in sorted(glob.glob('/verif/evidence/*.json')):
    v(f, '/root/.vp/EVIDENCE.schema.json')
print("valid" if ok else "FAILED")
sys.exit(0 if ok else 1)
