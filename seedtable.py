#!/usr/bin/env python3
"""seedtable.py : regenerate the table rows of DESIGN.md §7.4 from /verif/seeded/*/meta.json (keeps the prose around it)."""
import json, glob, os, re
rows = [json.load(open(m)) for m in sorted(glob.glob('/verif/seeded/*/meta.json'))]
out = ["| seed | what it needs to manifest | first run | now | caught by (first keys) |", "|---|---|---|---|---|"]
word = {1: 'caught', 0: 'MISSED', 2: 'driver crash'}
for d in rows:
    tag = f"{d['property']}-{d['tag']}"
    log = f"/verif/seeded/{tag}/check.log"; keys = []
    if os.path.exists(log):
        keys = [ln.split("key=")[-1].strip() for ln in open(log) if ln.startswith("VIOLATION")]
    first = d.get('check_exit_first_run', d['check_exit'])
    by = d.get('detected_by', d['property'])
    out.append(f"| {tag} | {d.get('needs','')} | {word.get(first, first)} | {word.get(d['check_exit'], d['check_exit'])} | {by}: " + ", ".join('`' + k[:60] + '`' for k in keys[:2]) + " |")
p = '/verif/DESIGN.md'
s = open(p).read()
s2 = re.sub(r"\| seed \| what it needs to manifest \|.*?\n\n", "\n".join(out) + "\n\n", s, count=1, flags=re.S)
open(p, 'w').write(s2)
n1 = sum(1 for d in rows if d.get('check_exit_first_run', d['check_exit']) == 1); n2 = sum(1 for d in rows if d['check_exit'] == 1)
print(f"{len(rows)} seeds, caught at first run {n1}, caught now {n2}")
