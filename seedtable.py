#!/usr/bin/env python3
"""seedtable.py : markdown table of /verif/seeded/*/meta.json for DESIGN.md §7.4"""
import json, glob, os
rows = []
for m in sorted(glob.glob('/verif/seeded/*/meta.json')):
    d = json.load(open(m))
    rows.append(d)
print("| seeded change | property | needs | first run | now | violation keys (first) |")
print("|---|---|---|---|---|---|")
for d in rows:
    tag = f"{d['property']}-{d['tag']}"
    log = f"/verif/seeded/{tag}/check.log"
    keys = []
    if os.path.exists(log):
        for ln in open(log):
            if ln.startswith("VIOLATION"):
                keys.append(ln.split("key=")[-1].strip())
    first = d.get('check_exit_first_run', d['check_exit'])
    print(f"| `seeded/{tag}` | {d['property']} | {d.get('needs','')} | {'detected' if first==1 else 'MISSED'} | {'detected' if d['check_exit']==1 else 'MISSED'} | {', '.join('`'+k[:70]+'`' for k in keys[:2])} |")
