#!/bin/bash
# ./killdemo.sh <Cnn> <patch.diff> [check args...]
# Runs a check against /repo + a unified diff (paths relative to /repo, -p1) WITHOUT touching /repo:
# the touched files are copied to a scratch dir, patched there and substituted by build overlay.
# Evidence files are not rewritten by such runs. Exit status / output are those of the check (1 + VIOLATION = detected).
set -u
ID=$1; PATCH=$(readlink -f "$2"); shift 2
M=$(mktemp -d /verif/.tmp/mut.XXXXXX)
trap 'rm -rf "$M"' EXIT
files=$(grep -E '^\+\+\+ ' "$PATCH" | sed -E 's#^\+\+\+ [ab]/##; s#\t.*##')
: > "$M/m.list"
for f in $files; do
  mkdir -p "$M/$(dirname $f)"
  [ -f "/repo/$f" ] && cp "/repo/$f" "$M/$f"
  printf '%s\t%s\n' "$f" "$M/$f" >> "$M/m.list"
done
( cd "$M" && patch -s -p1 < "$PATCH" ) || { echo "killdemo: patch failed"; exit 2; }
VERIF_EXTRA_OVERLAY="$M/m.list" /verif/check "$ID" "$@"
