#!/usr/bin/env python3
"""baseline_compare.py <gotest.json> : compare a `go test -json` run with the 179 stable-pass tests of BASELINE.json."""
import json, sys
base = set(json.load(open('/root/.vp/BASELINE.json'))['stable_pass'])
passed = set()
for ln in open(sys.argv[1]):
    try:
        e = json.loads(ln)
    except Exception:
        continue
    if e.get('Action') == 'pass' and e.get('Test'):
        passed.add(f"{e['Package']}::{e['Test']}")
missing = sorted(base - passed)
print(f"baseline={len(base)} passed_of_baseline={len(base & passed)} missing={len(missing)}")
for m in missing:
    print("  MISSING", m)
sys.exit(1 if missing else 0)
