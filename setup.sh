#!/bin/bash
# setup.sh [--modonly] : regenerate engine/go.mod replace block + go.sum from /repo, then pre-build every driver.
set -u
V=/verif
export GOFLAGS=-mod=mod GOPROXY=off GOSUMDB=off GOTOOLCHAIN=local
cd $V/engine || exit 1
python3 - <<'PY'
import re
repo = open('/repo/go.mod').read()
m = re.search(r'replace \((.*?)\n\)', repo, re.S)
block = m.group(1) if m else ''
out = """module verif.local/engine

go 1.23

require (
	github.com/polynetwork/poly v0.0.0
	github.com/anishathalye/porcupine v1.3.0
)

replace github.com/polynetwork/poly => /repo

replace (%s
)
""" % block
open('go.mod', 'w').write(out)
PY
cp /repo/go.sum go.sum
go mod tidy >/dev/null 2>&1 || true
[ "${1:-}" = "--modonly" ] && exit 0
mkdir -p $V/.build/bin $V/evidence $V/replays $V/.tmp
fail=0
build_one() {
  lc=$1
  python3 mkoverlay.py $lc > $V/.build/overlay_$lc.json
  if [ -x props/$lc/run.sh ]; then VERIF_OVERLAY=$V/.build/overlay_$lc.json VERIF_PROP=$lc props/$lc/run.sh --build-only >/dev/null 2>$V/.build/build_$lc.log || echo "setup: build of $lc failed"; return; fi
  go build -tags verif -overlay $V/.build/overlay_$lc.json -o $V/.build/bin/$lc ./props/$lc 2> $V/.build/build_$lc.log || echo "setup: build of $lc failed"
}
# first one alone (warms the shared dependency forest), then the rest in parallel
first=1
for d in props/c*/; do
  lc=$(basename $d)
  if [ $first = 1 ]; then build_one $lc; first=0; else build_one $lc & fi
  while [ $(jobs -r | wc -l) -ge 6 ]; do sleep 0.5; done
done
wait
exit 0
